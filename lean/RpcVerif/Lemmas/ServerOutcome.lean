import RpcVerif.Lemmas.ServerInv
import RpcVerif.Model.ServerOutcome
/-
  Proofs about `outcome`: every response written is the answer `outcome` prescribes for a request
  that was read, with the verdict its handler was given (`resp_determined`); hence the modes
  (direct I/O, pipelining) and the schedule do not change the answers (`resp_mode_independent`);
  after teardown the responses are, up to order, the prescribed answers (`served_resps_perm`).

  `Tr` of Lemmas/ServerInv.lean forgets the contents of the responses, so the steps are classified
  again, by `Tc`, which keeps the contents (as `outcome` equations) and forgets the rest.
-/
namespace RpcVerif.S
open RpcVerif

/-! ### `outcome` in the cases of `serveRequest` / `step` -/

theorem respOf_eq_mkResp (r : Req) (e : RespErr) (o : Bool) : respOf r e o = mkResp r e o := rfl

theorem isJob_split {r : Req} (h : isJob r = true) : r.junk = false ∧ dispatch r = .job := by
  unfold isJob at h
  simp only [Bool.and_eq_true, Bool.not_eq_true', beq_iff_eq] at h
  exact h

/-- the request passed the checks before the handler's entry -/
def okReq (r : Req) : Prop :=
  r.method.known = true ∧ ((flags r).noRequest = Gen.noRequest ∨ r.badArgs = false)

theorem outcome_ping {r : Req} (hj : r.junk = false) (hd : dispatch r = .ping) (v : Verdict) :
    outcome r v = some (mkResp r .none false) := by
  unfold outcome; simp only [hj, hd, Bool.false_eq_true, ↓reduceIte]; rfl

theorem outcome_open {r : Req} (hj : r.junk = false) (hd : dispatch r = .openStream) (v : Verdict) :
    outcome r v = some (mkResp r .nostream false) := by
  unfold outcome; simp only [hj, hd, Bool.false_eq_true, ↓reduceIte]; rfl

theorem outcome_close {r : Req} (hj : r.junk = false) (hd : dispatch r = .closeStream) (v : Verdict) :
    outcome r v = some (mkResp r .none false) := by
  unfold outcome; simp only [hj, hd, Bool.false_eq_true, ↓reduceIte]; rfl

theorem outcome_nosvc {r : Req} (h : isJob r = true) (hk : r.method.known = false) (v : Verdict) :
    outcome r v = some (mkResp r .nosvc false) := by
  obtain ⟨hj, hd⟩ := isJob_split h
  unfold outcome; simp only [hj, hd, hk, Bool.false_eq_true, ↓reduceIte, Bool.not_false]; rfl

theorem outcome_badargs {r : Req} (h : isJob r = true) (hk : r.method.known = true)
    (hb : ((flags r).noRequest != Gen.noRequest && r.badArgs) = true) (v : Verdict) :
    outcome r v = some (mkResp r .badargs false) := by
  obtain ⟨hj, hd⟩ := isJob_split h
  unfold outcome
  simp only [hj, hd, hk, hb, Bool.false_eq_true, ↓reduceIte, Bool.not_true]; rfl

theorem okReq_cond {r : Req} (ho : okReq r) :
    (!r.method.known) = false ∧ ((flags r).noRequest != Gen.noRequest && r.badArgs) = false := by
  obtain ⟨h1, h2⟩ := ho
  refine ⟨by simp [h1], ?_⟩
  rcases h2 with h | h
  · simp [h]
  · simp [h]

theorem outcome_job {r : Req} (h : isJob r = true) (ho : okReq r) (v : Verdict) :
    outcome r v = match v with
      | .ok => some (mkResp r .none true)
      | .err n => some (mkResp r (.text r.seq n) false)
      | .badReply =>
        if (flags r).noResponse != Gen.noResponse then some { seq := r.seq, err := .badreply, reply := .empty }
        else some (mkResp r .none true) := by
  obtain ⟨hj, hd⟩ := isJob_split h
  obtain ⟨c1, c2⟩ := okReq_cond ho
  unfold outcome
  simp only [hj, hd, c1, c2, Bool.false_eq_true, ↓reduceIte]
  cases v <;> rfl

/-! ### the steps, with the contents of what they write -/

theorem respond_content (s : State) (r : Req) (e : RespErr) (o : Bool) :
    ∃ ps, respond s r e o = { s with resps := s.resps ++ ps } ∧ ∀ p ∈ ps, p = mkResp r e o := by
  rcases Bool.eq_false_or_eq_true s.codecClosed with hc | hc
  · exact ⟨[], by rw [respond_closed s r e o hc, State.with_resps_nil], fun _ h => by cases h⟩
  · exact ⟨[mkResp r e o], respond_open' s r e o hc, fun p h => by simpa using h⟩

theorem ite_content (s1 : State) (p : Resp) :
    ∃ ps, (if s1.codecClosed = true then s1 else { s1 with resps := s1.resps ++ [p] }) = { s1 with resps := s1.resps ++ ps } ∧
      ∀ q ∈ ps, q = p := by
  rcases Bool.eq_false_or_eq_true s1.codecClosed with hc | hc
  · exact ⟨[], by rw [if_pos hc, State.with_resps_nil], fun _ h => by cases h⟩
  · exact ⟨[p], by rw [if_neg (by simp [hc])], fun q h => by simpa using h⟩

inductive Tc (s s' : State) : Prop
  | quiet : s'.resps = s.resps → s'.jobs = s.jobs → (∃ rs, s'.reqs = s.reqs ++ rs) → Tc s s'
  | answer (r : Req) (p : Resp) : r ∈ undispatched s → r.junk = false → dispatch r ≠ .job →
      (∀ v, outcome r v = some p) → s'.resps = s.resps ++ [p] → s'.jobs = s.jobs → s'.reqs = s.reqs → Tc s s'
  | newJob (r : Req) : s'.resps = s.resps → s'.jobs = s.jobs ++ [{ req := r }] → s'.reqs = s.reqs → Tc s s'
  | early (k : Nat) (j : Job) (ps : List Resp) : getJob s k = some j → j.phase = .queued →
      s'.jobs = upd k (fun j => { j with phase := .left }) s.jobs → s'.reqs = s.reqs → s'.resps = s.resps ++ ps →
      (∀ p ∈ ps, isJob j.req = true → ∀ v, outcome j.req v = some p) → Tc s s'
  | enter (k : Nat) (j : Job) : getJob s k = some j → j.phase = .queued → okReq j.req →
      s'.jobs = upd k (fun j => { j with phase := .entered, ran := true }) s.jobs → s'.reqs = s.reqs →
      s'.resps = s.resps → Tc s s'
  | hret (k : Nat) (j : Job) (v : Verdict) : getJob s k = some j → j.phase = .entered →
      s'.jobs = upd k (fun j => { j with verdict := some v }) s.jobs → s'.reqs = s.reqs → s'.resps = s.resps → Tc s s'
  | leave (k : Nat) (j : Job) (ps : List Resp) : getJob s k = some j → j.phase = .entered →
      s'.jobs = upd k (fun j => { j with phase := .left }) s.jobs → s'.reqs = s.reqs → s'.resps = s.resps ++ ps →
      (∀ p ∈ ps, isJob j.req = true → okReq j.req → outcome j.req (j.verdict.getD .ok) = some p) → Tc s s'

/-- `serveRequest`, by what it writes and dispatches -/
theorem serve_content (hf : allFlags = true) (s : State) (r : Req) :
    ((serveRequest s r).resps = s.resps ∧ (serveRequest s r).jobs = s.jobs ∧ (serveRequest s r).reqs = s.reqs) ∨
    (∃ p : Resp, r.junk = false ∧ dispatch r ≠ .job ∧ (∀ v, outcome r v = some p) ∧
      (serveRequest s r).resps = s.resps ++ [p] ∧ (serveRequest s r).jobs = s.jobs ∧ (serveRequest s r).reqs = s.reqs) ∨
    ((serveRequest s r).resps = s.resps ∧ (serveRequest s r).jobs = s.jobs ++ [{ req := r }] ∧
      (serveRequest s r).reqs = s.reqs) := by
  obtain ⟨-, -, h3, h4, -⟩ := allFlags_split hf
  rcases Bool.eq_false_or_eq_true r.junk with hj | hj
  · left
    have : serveRequest s r = s := by unfold serveRequest; simp [hj]
    rw [this]; exact ⟨rfl, rfl, rfl⟩
  rcases Bool.eq_false_or_eq_true s.codecClosed with hc | hc
  · left
    have : serveRequest s r = s := by unfold serveRequest; simp [hc]
    rw [this]; exact ⟨rfl, rfl, rfl⟩
  have hnr : respondNoReply s r = respond s r .none false := by
    simp only [respondNoReply, h4, Bool.not_true, Bool.false_and, Bool.false_eq_true, ↓reduceIte]
  rcases hd : dispatch r with _ | _ | _ | _ | _
  · right; left
    have : serveRequest s r = { s with resps := s.resps ++ [mkResp r .none false] } := by
      rw [← respond_open' s r .none false hc, ← hnr]; unfold serveRequest; simp [hj, hc, hd]
    rw [this]
    exact ⟨_, hj, by simp, outcome_ping hj hd, rfl, rfl, rfl⟩
  · right; left
    have : serveRequest s r = { s with resps := s.resps ++ [mkResp r .nostream false] } := by
      rw [← respond_open' s r .nostream false hc]; unfold serveRequest; simp [hj, hc, hd, h3]
    rw [this]
    exact ⟨_, hj, by simp, outcome_open hj hd, rfl, rfl, rfl⟩
  · right; left
    have : serveRequest s r = { s with resps := s.resps ++ [mkResp r .none false] } := by
      rw [← respond_open' s r .none false hc, ← hnr]; unfold serveRequest; simp [hj, hc, hd]
    rw [this]
    exact ⟨_, hj, by simp, outcome_close hj hd, rfl, rfl, rfl⟩
  · left
    have : serveRequest s r = s := by unfold serveRequest; simp [hj, hc, hd]
    rw [this]; exact ⟨rfl, rfl, rfl⟩
  · by_cases hw : (s.reader == .waited || s.reader == .served) = true
    · left
      have : serveRequest s r = crash s "sync: WaitGroup is reused before previous Wait has returned" := by
        unfold serveRequest; simp only [hj, hc, hd, Bool.or_self, Bool.false_eq_true, ↓reduceIte, hw]
      rw [this]; exact ⟨rfl, rfl, rfl⟩
    · right; right
      have : serveRequest s r = { s with wg := s.wg + 1, jobs := s.jobs ++ [{ req := r }] } := by
        unfold serveRequest; simp only [hj, hc, hd, Bool.or_self, Bool.false_eq_true, ↓reduceIte, hw]
      rw [this]; exact ⟨rfl, rfl, rfl⟩

theorem tc_of_serve {s s0 s' : State} {r : Req} (hf : allFlags = true) (hr : r ∈ undispatched s)
    (h0 : s0.resps = s.resps ∧ s0.jobs = s.jobs ∧ s0.reqs = s.reqs)
    (h1 : s'.resps = (serveRequest s0 r).resps ∧ s'.jobs = (serveRequest s0 r).jobs ∧ s'.reqs = (serveRequest s0 r).reqs) :
    Tc s s' := by
  obtain ⟨a1, a2, a3⟩ := h0
  obtain ⟨b1, b2, b3⟩ := h1
  rcases serve_content hf s0 r with ⟨c1, c2, c3⟩ | ⟨p, hj, hd, ho, c1, c2, c3⟩ | ⟨c1, c2, c3⟩
  · exact Tc.quiet (by rw [b1, c1, a1]) (by rw [b2, c2, a2]) ⟨[], by rw [b3, c3, a3, List.append_nil]⟩
  · exact Tc.answer r p hr hj hd ho (by rw [b1, c1, a1]) (by rw [b2, c2, a2]) (by rw [b3, c3, a3])
  · exact Tc.newJob r (by rw [b1, c1, a1]) (by rw [b2, c2, a2]) (by rw [b3, c3, a3])

theorem step_content (hf : allFlags = true) {s s' : State} {e : Ev} (hs : step s e = some s') : Tc s s' := by
  obtain ⟨h1, h2, h3, h4, h5⟩ := allFlags_split hf
  unfold step at hs
  split at hs
  · cases hs
  cases e with
  | feed r =>
    simp only [stepCore] at hs
    split at hs
    · cases hs
    · split at hs
      · cases hs; exact Tc.quiet rfl rfl ⟨[r], rfl⟩
      · cases hs; exact Tc.quiet rfl rfl ⟨[r], rfl⟩
  | eof =>
    simp only [stepCore] at hs
    split at hs
    · cases hs
    · cases hs; exact Tc.quiet rfl rfl ⟨[], (List.append_nil _).symm⟩
  | hret k v =>
    simp only [stepCore] at hs
    split at hs
    · rename_i j hj
      split at hs
      · rename_i hc
        cases hs
        simp only [Bool.and_eq_true, beq_iff_eq] at hc
        exact Tc.hret k j v hj hc.1.1 rfl rfl rfl
      · cases hs
    · cases hs
  | decode =>
    simp only [stepCore] at hs
    split at hs
    · split at hs
      · rename_i r hr
        cases hs
        have hm : r ∈ undispatched s := by rw [undispatched_eq, hr, und_decoding]; exact List.mem_cons_self
        exact tc_of_serve (s0 := s) hf hm ⟨rfl, rfl, rfl⟩ ⟨rfl, rfl, rfl⟩
      · cases hs
    · split at hs
      · rename_i r rest hq
        cases hs
        have hm : r ∈ undispatched s := by
          unfold undispatched; rw [hq]; exact List.mem_append_right _ List.mem_cons_self
        exact tc_of_serve (s0 := { s with decodeQ := rest }) hf hm ⟨rfl, rfl, rfl⟩ ⟨rfl, rfl, rfl⟩
      · cases hs
  | enter k =>
    simp only [stepCore] at hs
    split at hs
    · rename_i j hj
      split at hs
      · cases hs
      · rename_i hcond
        have hq : j.phase = .queued ∧ jobTurn s k = true := by simpa using hcond
        simp only [h1, h2, Bool.not_true, Bool.false_and, Bool.false_eq_true, ↓reduceIte] at hs
        split at hs
        · rename_i hk
          cases hs
          obtain ⟨ps, he, hc⟩ := respond_content (updJob s k fun j => { j with phase := .left }) j.req .nosvc false
          rw [he]
          refine Tc.early k j ps hj hq.1 rfl rfl rfl ?_
          intro p hp hjob v
          rw [hc p hp]
          exact outcome_nosvc hjob (by simpa using hk) v
        · rename_i hk
          split at hs
          · rename_i hb
            cases hs
            obtain ⟨ps, he, hc⟩ := respond_content (updJob s k fun j => { j with phase := .left }) j.req .badargs false
            rw [he]
            refine Tc.early k j ps hj hq.1 rfl rfl rfl ?_
            intro p hp hjob v
            rw [hc p hp]
            exact outcome_badargs hjob (by simpa using hk) hb v
          · rename_i hb
            cases hs
            refine Tc.enter k j hj hq.1 ⟨by simpa using hk, ?_⟩ rfl rfl rfl
            simp only [Bool.and_eq_true, bne_iff_ne, ne_eq, not_and, Bool.not_eq_true] at hb
            by_cases hn : (flags j.req).noRequest = Gen.noRequest
            · exact Or.inl hn
            · exact Or.inr (hb hn)
    · cases hs
  | leave k =>
    simp only [stepCore] at hs
    split at hs
    · rename_i j hj
      split at hs
      · cases hs
      · rename_i hph
        split at hs
        · cases hs
        · cases hs
          have hph' : j.phase = .entered := by simpa using hph
          have hk : j.req.seq = k := (getJob_mem hj).2
          have key : ∀ (v : Verdict) (ps : List Resp) (s1 : State), j.verdict.getD .ok = v →
              s1 = { (updJob s k fun j => { j with phase := .left }) with
                      resps := (updJob s k fun j => { j with phase := .left }).resps ++ ps } →
              (∀ p ∈ ps, isJob j.req = true → okReq j.req → outcome j.req v = some p) →
              Tc s { s1 with wg := s.wg - 1 } := by
            intro v ps s1 hv h1 hc
            subst h1
            exact Tc.leave k j ps hj hph' rfl rfl rfl (by rw [hv]; exact hc)
          generalize hv : j.verdict.getD .ok = v
          cases v with
          | ok =>
            obtain ⟨ps, he, hc⟩ := respond_content (updJob s k fun j => { j with phase := .left }) j.req .none true
            simp only []
            rw [he]
            refine key .ok ps _ hv rfl ?_
            intro p hp hjob ho
            rw [hc p hp, outcome_job hjob ho]
          | err n =>
            obtain ⟨ps, he, hc⟩ := respond_content (updJob s k fun j => { j with phase := .left }) j.req (.text k n) false
            simp only []
            rw [he]
            refine key (.err n) ps _ hv rfl ?_
            intro p hp hjob ho
            rw [hc p hp, outcome_job hjob ho, hk]
          | badReply =>
            simp only []
            split
            · rename_i hnr
              obtain ⟨ps, he, hc⟩ := ite_content (updJob s k fun j => { j with phase := .left })
                { seq := j.req.seq, err := .badreply, reply := .empty }
              rw [he]
              refine key .badReply ps _ hv rfl ?_
              intro p hp hjob ho
              rw [hc p hp, outcome_job hjob ho]; simp only [hnr, ↓reduceIte]
            · rename_i hnr
              obtain ⟨ps, he, hc⟩ := respond_content (updJob s k fun j => { j with phase := .left }) j.req .none true
              rw [he]
              refine key .badReply ps _ hv rfl ?_
              intro p hp hjob ho
              rw [hc p hp, outcome_job hjob ho]; simp only [hnr, Bool.false_eq_true, ↓reduceIte]
    · cases hs
  | drain =>
    simp only [stepCore] at hs
    split at hs
    · cases hs; exact Tc.quiet rfl rfl ⟨[], (List.append_nil _).symm⟩
    · cases hs
  | wait =>
    simp only [stepCore] at hs
    split at hs
    · cases hs; exact Tc.quiet rfl rfl ⟨[], (List.append_nil _).symm⟩
    · cases hs
  | closeCodec =>
    simp only [stepCore] at hs
    split at hs
    · cases hs; exact Tc.quiet rfl rfl ⟨[], (List.append_nil _).symm⟩
    · cases hs

/-! ### the invariant: every response is the prescribed answer of a read request -/

/-- `p` is the answer owed to a request read: one that is not a job (its answer does not depend on a
    verdict), or one whose job has left (its verdict is final) -/
def Ans (reqs : List Req) (jobs : List Job) (p : Resp) : Prop :=
  ∃ r, r ∈ reqs ∧ r.junk = false ∧ r.seq = p.seq ∧
    ((isJob r = false ∧ ∀ v, outcome r v = some p) ∨
     ∃ j, j ∈ jobs ∧ j.req = r ∧ j.phase = .left ∧ outcome r (j.verdict.getD .ok) = some p)

theorem Ans.mono {reqs reqs' : List Req} {jobs jobs' : List Job} {p : Resp} (h : Ans reqs jobs p)
    (hr : ∀ r ∈ reqs, r ∈ reqs') (hj : ∀ j ∈ jobs, j.phase = .left → j ∈ jobs') : Ans reqs' jobs' p := by
  obtain ⟨r, h1, h2, h3, h4⟩ := h
  refine ⟨r, hr r h1, h2, h3, ?_⟩
  rcases h4 with h4 | ⟨j, a, b, c, d⟩
  · exact Or.inl h4
  · exact Or.inr ⟨j, hj j a c, b, c, d⟩

structure RD (s : State) : Prop where
  ent : ∀ j ∈ s.jobs, j.phase = .entered → okReq j.req
  det : ∀ p ∈ s.resps, Ans s.reqs s.jobs p

theorem rd_init (cfg : Cfg) : RD (init cfg) :=
  ⟨fun _ h _ => (by cases h), fun _ h => (by cases h)⟩

theorem outcome_seq {r : Req} {v : Verdict} {p : Resp} (h : outcome r v = some p) : p.seq = r.seq := by
  unfold outcome at h
  split at h
  · cases h
  split at h
  · cases h; rfl
  · cases h; rfl
  · cases h; rfl
  · cases h
  · split at h
    · cases h; rfl
    split at h
    · cases h; rfl
    split at h
    · cases h; rfl
    · cases h; rfl
    · split at h <;> (cases h; rfl)

theorem getJob_uniq {s : State} (hn : JN s) {k : Nat} {j y : Job} (hj : getJob s k = some j) (hy : y ∈ s.jobs)
    (hk : y.req.seq = k) : y = j :=
  seq_inj hn hy (getJob_mem hj).1 (by rw [hk, (getJob_mem hj).2])

theorem upd_mem_other {k : Nat} {f : Job → Job} {js : List Job} {y : Job} (hy : y ∈ js) (hk : y.req.seq ≠ k) :
    y ∈ upd k f js := by
  unfold upd
  refine List.mem_map.2 ⟨y, hy, ?_⟩
  have : (y.req.seq == k) = false := by simpa using hk
  simp [this]

theorem upd_mem_self {s : State} {k : Nat} {j : Job} (f : Job → Job) (hj : getJob s k = some j) :
    f j ∈ upd k f s.jobs := by
  unfold upd
  refine List.mem_map.2 ⟨j, (getJob_mem hj).1, ?_⟩
  simp [(getJob_mem hj).2]

theorem upd_mem_cases {s : State} (hn : JN s) {k : Nat} {j x : Job} {f : Job → Job} (hj : getJob s k = some j)
    (hx : x ∈ upd k f s.jobs) : x = f j ∨ (x ∈ s.jobs ∧ x.req.seq ≠ k) := by
  unfold upd at hx
  obtain ⟨y, hy, rfl⟩ := List.mem_map.1 hx
  by_cases hk : y.req.seq = k
  · left
    have := getJob_uniq hn hj hy hk
    subst this
    simp [hk]
  · right
    have : (y.req.seq == k) = false := by simpa using hk
    simp only [this, Bool.false_eq_true, ↓reduceIte]
    exact ⟨hy, hk⟩

/-- a job that has left survives an update addressed to a job that has not -/
theorem left_kept {s : State} (hn : JN s) {k : Nat} {j : Job} (f : Job → Job) (hj : getJob s k = some j)
    (hp : j.phase ≠ .left) : ∀ y ∈ s.jobs, y.phase = .left → y ∈ upd k f s.jobs := by
  intro y hy hl
  apply upd_mem_other hy
  intro hk
  have := getJob_uniq hn hj hy hk
  subst this
  exact hp hl

theorem rd_tc {s s' : State} (hb : Base s) (hn : JN s) (hR : RD s) (htc : Tc s s') : RD s' := by
  cases htc with
  | quiet h1 h2 h3 =>
    obtain ⟨rs, h3⟩ := h3
    refine ⟨by rw [h2]; exact hR.ent, ?_⟩
    intro p hp
    rw [h1] at hp
    rw [h2, h3]
    exact (hR.det p hp).mono (fun r hr => List.mem_append_left _ hr) (fun j hj _ => hj)
  | answer r p hr hj hd ho h1 h2 h3 =>
    refine ⟨by rw [h2]; exact hR.ent, ?_⟩
    intro q hq
    rw [h1] at hq
    rw [h2, h3]
    rcases List.mem_append.1 hq with hq | hq
    · exact hR.det q hq
    · have : q = p := by simpa using hq
      subst this
      refine ⟨r, hb.und_mem hr, hj, (outcome_seq (ho .ok)).symm, Or.inl ⟨?_, ho⟩⟩
      unfold isJob
      have : (dispatch r == Dispatch.job) = false := by simpa using hd
      simp [this]
  | newJob r h1 h2 h3 =>
    constructor
    · intro j hj hp
      rw [h2] at hj
      rcases List.mem_append.1 hj with hj | hj
      · exact hR.ent j hj hp
      · have : j = { req := r } := by simpa using hj
        subst this
        cases hp
    · intro p hp
      rw [h1] at hp
      rw [h2, h3]
      exact (hR.det p hp).mono (fun _ hr => hr) (fun j hj _ => List.mem_append_left _ hj)
  | early k j ps hj hq h2 h3 h1 hc =>
    have hne : j.phase ≠ .left := by rw [hq]; simp
    constructor
    · intro x hx hp
      rw [h2] at hx
      rcases upd_mem_cases hn hj hx with rfl | ⟨hx, _⟩
      · cases hp
      · exact hR.ent x hx hp
    · intro p hp
      rw [h1] at hp
      rw [h2, h3]
      rcases List.mem_append.1 hp with hp | hp
      · exact (hR.det p hp).mono (fun _ hr => hr) (left_kept hn _ hj hne)
      · have hm := hb.job_mem (getJob_mem hj).1
        have ho := hc p hp hm.2
        refine ⟨j.req, hm.1, isJob_not_junk hm.2, (outcome_seq (ho .ok)).symm, Or.inr ⟨_, upd_mem_self _ hj, rfl, rfl, ho _⟩⟩
  | enter k j hj hq hok h2 h3 h1 =>
    have hne : j.phase ≠ .left := by rw [hq]; simp
    constructor
    · intro x hx hp
      rw [h2] at hx
      rcases upd_mem_cases hn hj hx with rfl | ⟨hx, _⟩
      · exact hok
      · exact hR.ent x hx hp
    · intro p hp
      rw [h1] at hp
      rw [h2, h3]
      exact (hR.det p hp).mono (fun _ hr => hr) (left_kept hn _ hj hne)
  | hret k j v hj hq h2 h3 h1 =>
    have hne : j.phase ≠ .left := by rw [hq]; simp
    constructor
    · intro x hx hp
      rw [h2] at hx
      rcases upd_mem_cases hn hj hx with rfl | ⟨hx, _⟩
      · exact hR.ent j (getJob_mem hj).1 hq
      · exact hR.ent x hx hp
    · intro p hp
      rw [h1] at hp
      rw [h2, h3]
      exact (hR.det p hp).mono (fun _ hr => hr) (left_kept hn _ hj hne)
  | leave k j ps hj hq h2 h3 h1 hc =>
    have hne : j.phase ≠ .left := by rw [hq]; simp
    constructor
    · intro x hx hp
      rw [h2] at hx
      rcases upd_mem_cases hn hj hx with rfl | ⟨hx, _⟩
      · cases hp
      · exact hR.ent x hx hp
    · intro p hp
      rw [h1] at hp
      rw [h2, h3]
      rcases List.mem_append.1 hp with hp | hp
      · exact (hR.det p hp).mono (fun _ hr => hr) (left_kept hn _ hj hne)
      · have hm := hb.job_mem (getJob_mem hj).1
        have ho := hc p hp hm.2 (hR.ent j (getJob_mem hj).1 hq)
        refine ⟨j.req, hm.1, isJob_not_junk hm.2, (outcome_seq ho).symm, Or.inr ⟨_, upd_mem_self _ hj, rfl, rfl, ho⟩⟩

theorem tc_reqs {s s' : State} (htc : Tc s s') : ∃ rs, s'.reqs = s.reqs ++ rs := by
  cases htc with
  | quiet _ _ h => exact h
  | answer _ _ _ _ _ _ _ _ h => exact ⟨[], by rw [h, List.append_nil]⟩
  | newJob _ _ _ h => exact ⟨[], by rw [h, List.append_nil]⟩
  | early _ _ _ _ _ _ h _ _ => exact ⟨[], by rw [h, List.append_nil]⟩
  | enter _ _ _ _ _ _ h _ => exact ⟨[], by rw [h, List.append_nil]⟩
  | hret _ _ _ _ _ _ h _ => exact ⟨[], by rw [h, List.append_nil]⟩
  | leave _ _ _ _ _ _ h _ _ => exact ⟨[], by rw [h, List.append_nil]⟩

theorem rd_step (hf : allFlags = true) {s s' : State} {e : Ev} (hb : Base s) (hR : RD s) (hu : UniqueSeq s')
    (hs : step s e = some s') : RD s' := by
  have htc := step_content hf hs
  exact rd_tc hb (jn_of_unique hb (unique_mono (tc_reqs htc) hu)) hR htc

theorem rd_accepts_gen (hf : allFlags = true) {s : State} {tr : List Ev} {s' : State} (h : Accepts s tr s') :
    Base s → RD s → UniqueSeq s' → RD s' := by
  induction h with
  | nil _ => exact fun _ hR _ => hR
  | cons hs hrest ih =>
    intro hb hR hu
    have hb' := base_step hf hb hs
    exact ih hb' (rd_step hf hb hR (unique_mono (accepts_reqs hf hrest hb') hu) hs) hu

theorem rd_accepts (hf : allFlags = true) {cfg : Cfg} {tr : List Ev} {s : State}
    (h : Accepts (init cfg) tr s) (hu : UniqueSeq s) : RD s :=
  rd_accepts_gen hf h (base_init cfg) (rd_init cfg) hu

/-! ### 1: every response is determined by its request and the handler's verdict -/

theorem verdictOf_job {s : State} (hn : JN s) {j : Job} (hj : j ∈ s.jobs) :
    verdictOf s j.req.seq = j.verdict.getD .ok := by
  unfold verdictOf
  cases hg : getJob s j.req.seq with
  | none =>
    unfold getJob at hg
    rw [List.find?_eq_none] at hg
    exact absurd (by simp) (hg j hj)
  | some j' =>
    have := getJob_uniq hn hg hj rfl
    subst this
    rfl

theorem resp_determined_of_flags (hf : allFlags = true) {cfg : Cfg} {tr : List Ev} {s : State}
    (h : Accepts (init cfg) tr s) (hu : UniqueSeq s) (p : Resp) (hp : p ∈ s.resps) :
    ∃ r, r ∈ s.reqs ∧ r.junk = false ∧ r.seq = p.seq ∧ outcome r (verdictOf s r.seq) = some p := by
  have hb := base_accepts hf h
  have hn := jn_of_unique hb hu
  obtain ⟨r, h1, h2, h3, h4⟩ := (rd_accepts hf h hu).det p hp
  refine ⟨r, h1, h2, h3, ?_⟩
  rcases h4 with ⟨_, h4⟩ | ⟨j, a, b, _, d⟩
  · exact h4 _
  · subst b
    rw [verdictOf_job hn a]; exact d

/-- every response ever written is exactly the answer `outcome` prescribes for a request that was
    read, with the verdict its handler was given -/
theorem resp_determined {cfg : Cfg} {tr : List Ev} {s : State} (h : Accepts (init cfg) tr s) (hu : UniqueSeq s)
    (p : Resp) (hp : p ∈ s.resps) :
    ∃ r, r ∈ s.reqs ∧ r.junk = false ∧ r.seq = p.seq ∧ outcome r (verdictOf s r.seq) = some p :=
  resp_determined_of_flags allFlags_true h hu p hp

/-! ### 2: the modes and the schedule do not change the answers -/

theorem req_uniq {s : State} (hu : UniqueSeq s) {a b : Req} (ha : a ∈ s.reqs) (hb : b ∈ s.reqs)
    (ja : a.junk = false) (jb : b.junk = false) (h : a.seq = b.seq) : a = b := by
  unfold UniqueSeq at hu
  have ha' : a ∈ s.reqs.filter (fun r => !r.junk) := List.mem_filter.2 ⟨ha, by simp [ja]⟩
  have hb' : b ∈ s.reqs.filter (fun r => !r.junk) := List.mem_filter.2 ⟨hb, by simp [jb]⟩
  generalize s.reqs.filter (fun r => !r.junk) = l at hu ha' hb'
  induction l with
  | nil => cases ha'
  | cons x xs ih =>
    rw [List.map_cons, List.nodup_cons] at hu
    rcases List.mem_cons.1 ha' with rfl | ha'' <;> rcases List.mem_cons.1 hb' with rfl | hb''
    · rfl
    · exact absurd (List.mem_map.2 ⟨b, hb'', h.symm⟩) hu.1
    · exact absurd (List.mem_map.2 ⟨a, ha'', h⟩) hu.1
    · exact ih hu.2 ha'' hb''

/-- the response to `r` in a run, given that one was written -/
theorem resp_of_req {cfg : Cfg} {tr : List Ev} {s : State} (h : Accepts (init cfg) tr s) (hu : UniqueSeq s)
    {p : Resp} (hp : p ∈ s.resps) {r : Req} (hr : r ∈ s.reqs) (hj : r.junk = false) (hs : p.seq = r.seq) :
    outcome r (verdictOf s r.seq) = some p := by
  obtain ⟨r', h1, h2, h3, h4⟩ := resp_determined h hu p hp
  have : r' = r := req_uniq hu h1 hr h2 hj (h3.trans hs)
  subst this
  exact h4

/-- two runs under different configurations (direct I/O / pipelining) and different schedules that
    both read request `r` and both answered it, with the same handler verdict, wrote the same response -/
theorem resp_mode_independent {cfg₁ cfg₂ : Cfg} {tr₁ tr₂ : List Ev} {s₁ s₂ : State}
    (h₁ : Accepts (init cfg₁) tr₁ s₁) (h₂ : Accepts (init cfg₂) tr₂ s₂) (hu₁ : UniqueSeq s₁) (hu₂ : UniqueSeq s₂)
    (p₁ p₂ : Resp) (hp₁ : p₁ ∈ s₁.resps) (hp₂ : p₂ ∈ s₂.resps) (r : Req) (hr₁ : r ∈ s₁.reqs) (hr₂ : r ∈ s₂.reqs)
    (hj : r.junk = false) (hs₁ : p₁.seq = r.seq) (hs₂ : p₂.seq = r.seq)
    (hv : verdictOf s₁ r.seq = verdictOf s₂ r.seq) : p₁ = p₂ := by
  have e1 := resp_of_req h₁ hu₁ hp₁ hr₁ hj hs₁
  have e2 := resp_of_req h₂ hu₂ hp₂ hr₂ hj hs₂
  rw [hv, e2] at e1
  exact (Option.some.inj e1).symm

/-! ### 3: after teardown the responses are, up to order, the prescribed answers -/

theorem outcome_needs {r : Req} {v : Verdict} {p : Resp} (h : outcome r v = some p) :
    r.junk = false ∧ needsResponse r = true := by
  unfold outcome at h
  unfold needsResponse
  split at h
  · cases h
  · rename_i hj
    have hj' : r.junk = false := by simpa using hj
    refine ⟨hj', ?_⟩
    split at h
    · rename_i hd; simp [hj', hd]
    · rename_i hd; simp [hj', hd]
    · rename_i hd; simp [hj', hd]
    · cases h
    · rename_i hd; simp [hj', hd]

theorem nodup_of_seq_count {l : List Resp} (h : ∀ k, (l.filter (·.seq == k)).length ≤ 1) : l.Nodup := by
  rw [List.nodup_iff_count]
  intro a
  refine Nat.le_trans ?_ (h a.seq)
  rw [← List.countP_eq_length_filter, List.count_eq_countP]
  apply List.countP_mono_left
  intro x _ hx
  have : x = a := by simpa using hx
  simp [this]

theorem nodup_filterMap_of_seq {f : Req → Option Resp}
    (hf : ∀ r p, f r = some p → r.junk = false ∧ p.seq = r.seq) (l : List Req)
    (hn : ((l.filter (fun r => !r.junk)).map (·.seq)).Nodup) : (l.filterMap f).Nodup := by
  induction l with
  | nil => exact List.nodup_nil
  | cons x xs ih =>
    have hxs : ((xs.filter (fun r => !r.junk)).map (·.seq)).Nodup := by
      rw [List.filter_cons] at hn
      split at hn
      · rw [List.map_cons, List.nodup_cons] at hn; exact hn.2
      · exact hn
    rw [List.filterMap_cons]
    cases hx : f x with
    | none => exact ih hxs
    | some p =>
      obtain ⟨hj, hs⟩ := hf x p hx
      rw [List.nodup_cons]
      refine ⟨?_, ih hxs⟩
      intro hm
      obtain ⟨r, hr, hfr⟩ := List.mem_filterMap.1 hm
      obtain ⟨hj', hs'⟩ := hf r p hfr
      have hcond : (!x.junk) = true := by simp [hj]
      rw [List.filter_cons, if_pos hcond, List.map_cons, List.nodup_cons] at hn
      apply hn.1
      refine List.mem_map.2 ⟨r, List.mem_filter.2 ⟨hr, by simp [hj']⟩, ?_⟩
      rw [← hs', hs]

theorem served_resps_perm_of_flags (hf : allFlags = true) {cfg : Cfg} {tr : List Ev} {s : State}
    (h : Accepts (init cfg) tr s) (hu : UniqueSeq s) (hs : s.reader = .served) :
    s.resps.Perm (s.reqs.filterMap (fun r => outcome r (verdictOf s r.seq))) := by
  have hout : ∀ r p, outcome r (verdictOf s r.seq) = some p → r.junk = false ∧ p.seq = r.seq :=
    fun r p ho => ⟨(outcome_needs ho).1, outcome_seq ho⟩
  have d1 : s.resps.Nodup := nodup_of_seq_count (fun k => resp_at_most_once_of_flags hf h hu k)
  have d2 : (s.reqs.filterMap (fun r => outcome r (verdictOf s r.seq))).Nodup :=
    nodup_filterMap_of_seq hout s.reqs hu
  rw [List.perm_ext_iff_of_nodup d1 d2]
  intro p
  constructor
  · intro hp
    obtain ⟨r, h1, _, _, h4⟩ := resp_determined_of_flags hf h hu p hp
    exact List.mem_filterMap.2 ⟨r, h1, h4⟩
  · intro hp
    obtain ⟨r, hr, ho⟩ := List.mem_filterMap.1 hp
    obtain ⟨hj, hnr⟩ := outcome_needs ho
    have hc := (served_complete_of_flags hf h hu hs r hr).2 hnr
    unfold respCount at hc
    have hpos : 0 < (s.resps.filter (·.seq == r.seq)).length := by omega
    obtain ⟨p', hp'⟩ := List.exists_mem_of_length_pos hpos
    obtain ⟨hm, hseq⟩ := List.mem_filter.1 hp'
    have hseq' : p'.seq = r.seq := by simpa using hseq
    obtain ⟨r', h1, h2, h3, h4⟩ := resp_determined_of_flags hf h hu p' hm
    have : r' = r := req_uniq hu h1 hr h2 hj (h3.trans hseq')
    subst this
    rw [ho] at h4
    rw [Option.some.inj h4]
    exact hm

/-- at the end of a connection whose teardown has completed, the responses written are, up to
    order, exactly the prescribed answers of all requests read -/
theorem served_resps_perm {cfg : Cfg} {tr : List Ev} {s : State} (h : Accepts (init cfg) tr s) (hu : UniqueSeq s)
    (hs : s.reader = .served) :
    s.resps.Perm ((s.reqs.filterMap (fun r => outcome r (verdictOf s r.seq)))) :=
  served_resps_perm_of_flags allFlags_true h hu hs

end RpcVerif.S
