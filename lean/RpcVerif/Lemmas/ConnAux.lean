import RpcVerif.Model.ConnInv
/-
  Proofs of the further invariants of K (ModeInv, SendQInv, TaskInv, ProvInv, FifoInv).
-/
namespace RpcVerif.K
open RpcVerif

/-! ## helpers about the small state transformers -/

/-- `[k]` if `k` is an asynchronous call of `s`, `[]` otherwise -/
def hd (s : State) (k : Nat) : List Nat := if isAsync s k then [k] else []

private theorem updCall_calls (s : State) (k : Nat) (f : Call → Call) (j : Nat) :
    (updCall s k f).calls j = if j = k then (s.calls k).map f else s.calls j := rfl

theorem hand_eq (s : State) (k : Nat) : hand s k = { s with handed := s.handed ++ hd s k } := by
  unfold hand hd isAsync getCall
  cases h : s.calls k with
  | none => simp
  | some c => cases h2 : c.form.async <;> simp [h2]

theorem signal_eq (s : State) (k : Nat) :
    signal s k = { s with calls := (updCall s k fun c => { c with signals := c.signals + 1 }).calls,
                          arrivals := s.arrivals ++ hd s k } := by
  unfold signal hd isAsync getCall
  simp only [updCall_calls, if_true]
  cases h : s.calls k with
  | none => simp [updCall, h]
  | some c => cases h2 : c.form.async <;> simp [updCall, h2, h]

/-- `s'` has the same call records as `s` as far as the projection `p` can see -/
def Same {α : Type} (p : Call → α) (s s' : State) : Prop := ∀ j, (s'.calls j).map p = (s.calls j).map p

section Same
variable {α : Type} {p : Call → α}

theorem Same.refl (s : State) : Same p s s := fun _ => rfl
theorem Same.symm {s s' : State} (h : Same p s s') : Same p s' s := fun j => (h j).symm
theorem Same.trans {s s' s'' : State} (h : Same p s s') (h' : Same p s' s'') : Same p s s'' :=
  fun j => (h' j).trans (h j)

theorem Same.comp {β : Type} {s s' : State} (h : Same p s s') (g : α → β) : Same (fun c => g (p c)) s s' := by
  intro j
  have := congrArg (Option.map g) (h j)
  simpa [Option.map_map, Function.comp_def] using this

theorem same_updCall {s : State} {k : Nat} {f : Call → Call} (hf : ∀ c, p (f c) = p c) :
    Same p s (updCall s k f) := by
  intro j; simp only [updCall_calls]; split
  · subst_vars; cases s.calls j <;> simp [hf]
  · rfl

theorem Same.get {s s' : State} (h : Same p s s') {j : Nat} {c : Call} (h' : s.calls j = some c) :
    ∃ c', s'.calls j = some c' ∧ p c' = p c := by
  have := h j
  rw [h'] at this
  cases h2 : s'.calls j with
  | none => simp [h2] at this
  | some c' =>
    simp [h2] at this
    exact ⟨c', rfl, this⟩

theorem Same.get' {s s' : State} (h : Same p s s') {j : Nat} {c' : Call} (h' : s'.calls j = some c') :
    ∃ c, s.calls j = some c ∧ p c' = p c := by
  obtain ⟨c, hc, hp⟩ := h.symm.get h'
  exact ⟨c, hc, hp.symm⟩

theorem Same.isSome {s s' : State} (h : Same p s s') (j : Nat) :
    (s'.calls j).isSome = (s.calls j).isSome := by
  have := h j
  cases h1 : s'.calls j <;> cases h2 : s.calls j <;> simp_all

theorem same_setErr (s : State) (k : Nat) (e : Err)
    (hp : ∀ c : Call, p { c with errHist := c.errHist ++ [e] } = p c) : Same p s (setErr s k e) :=
  same_updCall hp

theorem same_signal (s : State) (k : Nat)
    (hp : ∀ c : Call, p { c with signals := c.signals + 1 } = p c) : Same p s (signal s k) := by
  rw [signal_eq]; exact same_updCall (f := fun c => { c with signals := c.signals + 1 }) hp

end Same

theorem Same.isAsync {s s' : State} (h : Same Call.form s s') : isAsync s' = isAsync s := by
  funext k; have := h k; unfold K.isAsync
  cases h1 : s'.calls k <;> cases h2 : s.calls k <;> simp_all

theorem Same.hd {s s' : State} (h : Same Call.form s s') (k : Nat) : hd s' k = hd s k := by
  unfold K.hd; rw [h.isAsync]

theorem complete_pipe {s : State} (h : s.cfg.pipe = true) (k : Nat) :
    complete s k = { s with handed := s.handed ++ hd s k, finQ := s.finQ ++ [.done k] } := by
  unfold complete; simp only [hand_eq, h, if_true]

theorem complete_nopipe {s : State} (h : s.cfg.pipe = false) (k : Nat) :
    complete s k = { s with handed := s.handed ++ hd s k,
                            calls := (updCall s k fun c => { c with signals := c.signals + 1 }).calls,
                            arrivals := s.arrivals ++ hd s k } := by
  unfold complete; simp only [hand_eq, h, signal_eq]
  rfl

/-- fail or finish a registered call: store the error, complete -/
abbrev failCall (s : State) (k : Nat) (e : Err) : State := complete (setErr s k e) k

theorem foldl_failCall_inv (P : State → Prop) (e : Err) (ps : List (Nat × Nat))
    (hP : ∀ s p, p ∈ ps → P s → P (failCall s p.2 e)) (s : State) (h : P s) :
    P (ps.foldl (fun s p => complete (setErr s p.2 e) p.2) s) := by
  induction ps generalizing s with
  | nil => exact h
  | cons p ps ih =>
    simp only [List.foldl_cons]
    exact ih (fun s q hq => hP s q (List.mem_cons_of_mem _ hq)) _ (hP s p List.mem_cons_self h)

theorem popSend_eq (s : State) (k : Nat) :
    popSend s k = { s with sendQ := if s.cfg.pipe then s.sendQ.filter (· != k) else s.sendQ } := by
  unfold popSend; split <;> simp [*]

theorem finishCall_eq (s : State) (k : Nat) (f : Frame) :
    finishCall s k f = signal (updCall s k fun c =>
      { c with replyFrom := some (f.src, f.kind), replyWrites := c.replyWrites + 1 }) k := rfl

section Same
variable {α : Type} {p : Call → α}

theorem same_complete (s : State) (k : Nat)
    (hp : ∀ c : Call, p { c with signals := c.signals + 1 } = p c) : Same p s (complete s k) := by
  cases h : s.cfg.pipe
  · rw [complete_nopipe h]
    exact same_updCall (f := fun c => { c with signals := c.signals + 1 }) hp
  · rw [complete_pipe h]; exact Same.refl s

theorem same_failCall (s : State) (k : Nat) (e : Err)
    (hp : ∀ c : Call, p { c with signals := c.signals + 1 } = p c)
    (hp' : ∀ c : Call, p { c with errHist := c.errHist ++ [e] } = p c) : Same p s (failCall s k e) :=
  (same_setErr s k e hp').trans (same_complete _ k hp)

theorem same_finishCall (s : State) (k : Nat) (f : Frame)
    (hp : ∀ c : Call, p { c with signals := c.signals + 1 } = p c)
    (hp' : ∀ c : Call, p { c with replyFrom := some (f.src, f.kind), replyWrites := c.replyWrites + 1 } = p c) :
    Same p s (finishCall s k f) := by
  rw [finishCall_eq]
  exact (same_updCall (f := fun c =>
      { c with replyFrom := some (f.src, f.kind), replyWrites := c.replyWrites + 1 }) hp').trans
    (same_signal _ k hp)

end Same

/-- the part of a call record that the structural invariants look at -/
def core (c : Call) : Form × Phase × Option Nat := (c.form, c.phase, c.seq)

theorem Same.form {s s' : State} (h : Same core s s') : Same Call.form s s' := h.comp (·.1)
theorem Same.phase {s s' : State} (h : Same core s s') : Same Call.phase s s' := h.comp (·.2.1)
theorem Same.seq {s s' : State} (h : Same core s s') : Same Call.seq s s' := h.comp (·.2.2)

/-- what `read(ctx)` does, by cases -/
theorem readFrame_cases (s : State) (f : Frame) :
    readFrame s f = (s, none) ∨
    readFrame s f = ({ s with pending := erase s.pending f.seq }, none) ∨
    ∃ k c, lookup s.pending f.seq = some k ∧ s.calls k = some c ∧ f.junk = false ∧
      ((∃ e, (e = Err.shutdown ∨ ∃ n, f.kind = .err n ∧ e = .text f.src n) ∧
          readFrame s f = (failCall { s with pending := erase s.pending f.seq } k e, none)) ∨
       (c.form = .ping ∧ readFrame s f = (signal { s with pending := erase s.pending f.seq } k, none)) ∨
       (s.cfg.pipe = true ∧ readFrame s f =
          ({ s with pending := erase s.pending f.seq, handed := s.handed ++ hd s k,
                    finQ := s.finQ ++ [.fin k f] }, none)) ∨
       (s.cfg.pipe = false ∧ s.cfg.directIO = true ∧ readFrame s f =
          ({ s with pending := erase s.pending f.seq, handed := s.handed ++ hd s k }, some k)) ∨
       (s.cfg.pipe = false ∧ s.cfg.directIO = false ∧ readFrame s f =
          ({ s with pending := erase s.pending f.seq, handed := s.handed ++ hd s k,
                    finBag := s.finBag ++ [.fin k f] }, none))) := by
  unfold readFrame
  split
  next => exact .inl rfl
  next hj =>
  split
  next => exact .inl rfl
  next =>
  split
  next => exact .inl rfl
  next =>
  split
  next => exact .inl rfl
  next k hk =>
  simp only [getCall]
  split
  next => exact .inr (.inl rfl)
  next c hc =>
  refine .inr (.inr ⟨k, c, hk, hc, by simpa using hj, ?_⟩)
  split
  next n hn => exact .inl ⟨_, .inr ⟨n, hn, rfl⟩, rfl⟩
  next => exact .inl ⟨_, .inl rfl, rfl⟩
  next =>
    split
    next hp => exact .inr (.inl ⟨by simpa using hp, rfl⟩)
    next =>
      simp only [hand_eq]
      split
      next hp => exact .inr (.inr (.inl ⟨hp, rfl⟩))
      next hp =>
        split
        next hd => exact .inr (.inr (.inr (.inl ⟨by simpa using hp, hd, rfl⟩)))
        next hd => exact .inr (.inr (.inr (.inr ⟨by simpa using hp, by simpa using hd, rfl⟩)))

/-- fields that none of the completion operations touches -/
structure Untouched (s s' : State) : Prop where
  cfg : s'.cfg = s.cfg
  sendQ : s'.sendQ = s.sendQ
  reader : s'.reader = s.reader
  decodeQ : s'.decodeQ = s.decodeQ
  fed : s'.fed = s.fed
  finBag : s'.finBag = s.finBag
  pending : s'.pending = s.pending

theorem Untouched.refl (s : State) : Untouched s s := ⟨rfl, rfl, rfl, rfl, rfl, rfl, rfl⟩

theorem Untouched.trans {s s' s'' : State} (h : Untouched s s') (h' : Untouched s' s'') : Untouched s s'' :=
  ⟨h'.cfg.trans h.cfg, h'.sendQ.trans h.sendQ, h'.reader.trans h.reader, h'.decodeQ.trans h.decodeQ,
   h'.fed.trans h.fed, h'.finBag.trans h.finBag, h'.pending.trans h.pending⟩

theorem untouched_signal (s : State) (k : Nat) : Untouched s (signal s k) := by
  rw [signal_eq]; exact ⟨rfl, rfl, rfl, rfl, rfl, rfl, rfl⟩

theorem untouched_complete (s : State) (k : Nat) : Untouched s (complete s k) := by
  cases h : s.cfg.pipe
  · rw [complete_nopipe h]; exact ⟨rfl, rfl, rfl, rfl, rfl, rfl, rfl⟩
  · rw [complete_pipe h]; exact ⟨rfl, rfl, rfl, rfl, rfl, rfl, rfl⟩

theorem untouched_updCall (s : State) (k : Nat) (g : Call → Call) : Untouched s (updCall s k g) :=
  ⟨rfl, rfl, rfl, rfl, rfl, rfl, rfl⟩

theorem untouched_failCall (s : State) (k : Nat) (e : Err) : Untouched s (failCall s k e) :=
  (untouched_updCall s k _).trans (untouched_complete (setErr s k e) k)

theorem untouched_finishCall (s : State) (k : Nat) (f : Frame) : Untouched s (finishCall s k f) :=
  (untouched_updCall s k _).trans (untouched_signal (updCall s k _) k)

theorem readFrame_cfg (s : State) (f : Frame) : (readFrame s f).1.cfg = s.cfg := by
  rcases readFrame_cases s f with h' | h' | ⟨k', c, _, _, _, h'⟩
  · rw [h']
  · rw [h']
  · rcases h' with ⟨e, _, h'⟩ | ⟨_, h'⟩ | ⟨hp, h'⟩ | ⟨_, _, h'⟩ | ⟨hp, _, h'⟩ <;> rw [h']
    · exact (untouched_failCall _ _ _).cfg
    · exact (untouched_signal _ _).cfg

theorem readFrame_sendQ (s : State) (f : Frame) : (readFrame s f).1.sendQ = s.sendQ := by
  rcases readFrame_cases s f with h' | h' | ⟨k', c, _, _, _, h'⟩
  · rw [h']
  · rw [h']
  · rcases h' with ⟨e, _, h'⟩ | ⟨_, h'⟩ | ⟨hp, h'⟩ | ⟨_, _, h'⟩ | ⟨hp, _, h'⟩ <;> rw [h']
    · exact (untouched_failCall _ _ _).sendQ
    · exact (untouched_signal _ _).sendQ

theorem readFrame_reader (s : State) (f : Frame) : (readFrame s f).1.reader = s.reader := by
  rcases readFrame_cases s f with h' | h' | ⟨k', c, _, _, _, h'⟩
  · rw [h']
  · rw [h']
  · rcases h' with ⟨e, _, h'⟩ | ⟨_, h'⟩ | ⟨hp, h'⟩ | ⟨_, _, h'⟩ | ⟨hp, _, h'⟩ <;> rw [h']
    · exact (untouched_failCall _ _ _).reader
    · exact (untouched_signal _ _).reader

theorem readFrame_decodeQ (s : State) (f : Frame) : (readFrame s f).1.decodeQ = s.decodeQ := by
  rcases readFrame_cases s f with h' | h' | ⟨k', c, _, _, _, h'⟩
  · rw [h']
  · rw [h']
  · rcases h' with ⟨e, _, h'⟩ | ⟨_, h'⟩ | ⟨hp, h'⟩ | ⟨_, _, h'⟩ | ⟨hp, _, h'⟩ <;> rw [h']
    · exact (untouched_failCall _ _ _).decodeQ
    · exact (untouched_signal _ _).decodeQ

theorem readFrame_fed (s : State) (f : Frame) : (readFrame s f).1.fed = s.fed := by
  rcases readFrame_cases s f with h' | h' | ⟨k', c, _, _, _, h'⟩
  · rw [h']
  · rw [h']
  · rcases h' with ⟨e, _, h'⟩ | ⟨_, h'⟩ | ⟨hp, h'⟩ | ⟨_, _, h'⟩ | ⟨hp, _, h'⟩ <;> rw [h']
    · exact (untouched_failCall _ _ _).fed
    · exact (untouched_signal _ _).fed

/-! ## the shapes of a step -/

def noText (e : Err) : Prop := ∀ a b, e ≠ .text a b

def phaseErr : Phase → Option Err
  | .wfailed e => some e
  | .failing _ e => some e
  | _ => none

/-- `g` moves a call to phase `ph` and leaves everything the invariants look at alone -/
def PhaseFn (ph : Phase) (g : Call → Call) : Prop :=
  ∀ c, (g c).phase = ph ∧ (g c).form = c.form ∧ (g c).seq = c.seq ∧ (g c).replyFrom = c.replyFrom ∧
    (g c).errHist = c.errHist

/-- `g` leaves everything the invariants look at alone -/
def Inert (g : Call → Call) : Prop :=
  ∀ c, (g c).phase = c.phase ∧ (g c).form = c.form ∧ (g c).seq = c.seq ∧ (g c).replyFrom = c.replyFrom ∧
    (g c).errHist = c.errHist

def addCall (s : State) (c : Call) : State :=
  { s with calls := fun j => if j = c.k then some c else s.calls j, ids := s.ids ++ [c.k],
           sendQ := if s.cfg.pipe then s.sendQ ++ [c.k] else s.sendQ }

/-- the registering critical section of send -/
def regd (s : State) (k : Nat) (w : List (Nat × Nat × UInt8)) : State :=
  updCall { s with seq := s.seq + 1, pending := s.pending ++ [(s.seq, k)], writes := w } k
    fun c => { c with seq := some s.seq }

def sweepAll (s : State) (e : Err) : State :=
  (sortBySeq s.pending).foldl (fun s p => complete (setErr s p.2 e) p.2) { s with shutdown := true, pending := [] }

def afterRead (f : Frame) : Option Nat → Reader
  | some k => .finishing k f
  | none => .waiting

def notFin (k : Nat) : Task → Bool
  | .fin k' _ => k' != k
  | _ => true

/-- the steps of a sender -/
inductive SendShape (s : State) : State → Prop
  | start (c : Call) : s.calls c.k = none → c.phase = .new → c.seq = none → c.errHist = [] →
      c.replyFrom = none → SendShape s (addCall s c)
  | sentPlain (k : Nat) (c : Call) (g : Call → Call) : s.calls k = some c → c.phase ≠ .new → c.phase ≠ .sent →
      PhaseFn .sent g → SendShape s (popSend (updCall s k g) k)
  | sentFail (k : Nat) (c : Call) (e : Err) (g : Call → Call) : s.calls k = some c →
      ((c.phase = .new ∧ (s.cfg.pipe = true → s.sendQ.head? = some k) ∧ e = .shutdown) ∨ c.phase = .failing true e) →
      PhaseFn .sent g → SendShape s (popSend (updCall (failCall s k e) k g) k)
  | sentReg (k : Nat) (c : Call) (w : List (Nat × Nat × UInt8)) (g : Call → Call) : s.calls k = some c →
      c.phase = .new → (s.cfg.pipe = true → s.sendQ.head? = some k) →
      PhaseFn .sent g → SendShape s (popSend (updCall (regd s k w) k g) k)
  | reg (k : Nat) (c : Call) (w : List (Nat × Nat × UInt8)) (ph : Phase) (g : Call → Call) : s.calls k = some c →
      c.phase = .new → (s.cfg.pipe = true → s.sendQ.head? = some k) →
      PhaseFn ph g → (ph = .wfailed .encfail ∨ ph = .atWrite) → SendShape s (updCall (regd s k w) k g)
  | setPhase (k : Nat) (c : Call) (ph : Phase) (g : Call → Call) (pd : List (Nat × Nat)) : s.calls k = some c →
      c.phase ≠ .new → c.phase ≠ .sent → ph ≠ .new → ph ≠ .sent → PhaseFn ph g →
      (∀ e, phaseErr ph = some e → e = .wfail ∨ phaseErr c.phase = some e) →
      (∀ x, x ∈ pd → x ∈ s.pending) → SendShape s (updCall { s with pending := pd } k g)

/-- every enabled step has one of these shapes -/
inductive Shape (s : State) : State → Prop
  | send (s' : State) : SendShape s s' → Shape s s'
  | feedD (f : Frame) : s.cfg.directIO = true → Shape s { s with reader := .decoding f, fed := s.fed ++ [f] }
  | feedQ (f : Frame) : s.cfg.directIO = false → Shape s { s with decodeQ := s.decodeQ ++ [f], fed := s.fed ++ [f] }
  | setReader (r : Reader) : (∀ f k, r ≠ .decoding f ∧ r ≠ .finishing k f) → (∀ e, r = .ended e → noText e) →
      Shape s { s with reader := r }
  | close (a b : Bool) (l : List (Option Err)) : Shape s { s with closing := a, msgsClosed := b, closeRet := l }
  | decodeD (f : Frame) : s.cfg.directIO = true → s.reader = .decoding f →
      Shape s { (readFrame s f).1 with reader := afterRead f (readFrame s f).2 }
  | decodeQ (f : Frame) (rest : List Frame) : s.cfg.directIO = false → s.decodeQ = f :: rest →
      Shape s (readFrame { s with decodeQ := rest } f).1
  | finishR (k : Nat) (f : Frame) : s.reader = .finishing k f → Shape s { (finishCall s k f) with reader := .waiting }
  | finishQ (k : Nat) (f : Frame) (rest : List Task) : s.cfg.pipe = true → s.finQ = .fin k f :: rest →
      Shape s (finishCall { s with finQ := rest } k f)
  | finishB (k : Nat) (f : Frame) : s.cfg.pipe = false → .fin k f ∈ s.finBag →
      Shape s (finishCall { s with finBag := s.finBag.filter (notFin k) } k f)
  | runDone (k : Nat) (rest : List Task) : s.finQ = .done k :: rest → Shape s (signal { s with finQ := rest } k)
  | inert (k : Nat) (g : Call → Call) : Inert g → Shape s (updCall s k g)
  | sweep (e : Err) : s.reader = .ended e → Shape s { (sweepAll s e) with reader := .swept }

theorem step_shape {s s' : State} {e : Ev} (hs : step s e = some s') : Shape s s' := by
  cases e <;> simp only [step] at hs
  case start c =>
    split at hs
    · cases hs
    · next h =>
      cases hs
      simp only [getCall, Option.isSome_iff_ne_none, ne_eq, Decidable.not_not] at h
      exact Shape.send _ <| SendShape.start (s := s) { k := c.k, form := c.form, replyLen := c.replyLen, holdW := c.holdW, holdB := c.holdB, failEnc := c.failEnc, ctxCap := c.ctxCap, goReturned := s.cfg.pipe } h rfl rfl rfl rfl
  case sendLock k =>
    simp only [getCall] at hs
    split at hs
    next c hc =>
      split at hs
      · cases hs
      next hg =>
      simp only [Bool.or_eq_true, bne_iff_ne, ne_eq, Bool.not_eq_eq_eq_not, Bool.not_true, not_or,
        Decidable.not_not, Bool.not_eq_false] at hg
      have hturn : s.cfg.pipe = true → s.sendQ.head? = some k := by
        intro hp; have := hg.2; simpa [sendTurn, hp] using this
      split at hs
      · cases hs
        exact Shape.send _ <| SendShape.sentFail k c .shutdown _ hc (.inl ⟨hg.1, hturn, rfl⟩) (fun _ => ⟨rfl, rfl, rfl, rfl, rfl⟩)
      · split at hs
        · cases hs
          exact Shape.send _ <| SendShape.reg k c s.writes (.wfailed .encfail) _ hc hg.1 hturn (fun _ => ⟨rfl, rfl, rfl, rfl, rfl⟩)
            (.inl rfl)
        · split at hs
          · cases hs
            exact Shape.send _ <| SendShape.reg k c (s.writes ++ [(k, s.seq, upgradeByte c)]) .atWrite _ hc hg.1 hturn
              (fun _ => ⟨rfl, rfl, rfl, rfl, rfl⟩) (.inr rfl)
          · cases hs
            exact Shape.send _ <| SendShape.sentReg k c (s.writes ++ [(k, s.seq, upgradeByte c)]) _ hc hg.1 hturn
              (fun _ => ⟨rfl, rfl, rfl, rfl, rfl⟩)
    next => cases hs
  case wret k ok =>
    simp only [getCall] at hs
    split at hs
    next c hc =>
      split at hs
      · cases hs
      next hg =>
      simp only [bne_iff_ne, ne_eq, Decidable.not_not] at hg
      split at hs
      · cases hs
        exact Shape.send _ <| SendShape.sentPlain k c _ hc (by simp [hg]) (by simp [hg]) (fun _ => ⟨rfl, rfl, rfl, rfl, rfl⟩)
      · cases hs
        exact Shape.send _ <| SendShape.setPhase k c (.wfailed .wfail) _ s.pending hc (by simp [hg]) (by simp [hg]) (by simp) (by simp)
          (fun _ => ⟨rfl, rfl, rfl, rfl, rfl⟩) (by simp [phaseErr]) (fun _ h => h)
    next => cases hs
  case sendUnreg k =>
    simp only [getCall] at hs
    split at hs
    next c hc =>
      split at hs
      next e q hph hq =>
        split at hs
        · cases hs
          exact Shape.send _ <| SendShape.setPhase k c (.failing true e) _ (erase s.pending q) hc (by simp [hph]) (by simp [hph])
            (by simp) (by simp) (fun _ => ⟨rfl, rfl, rfl, rfl, rfl⟩) (by simp [phaseErr, hph])
            (fun _ h => (List.mem_filter.1 h).1)
        · cases hs
          exact Shape.send _ <| SendShape.setPhase k c (.failing false e) _ s.pending hc (by simp [hph]) (by simp [hph])
            (by simp) (by simp) (fun _ => ⟨rfl, rfl, rfl, rfl, rfl⟩) (by simp [phaseErr, hph]) (fun _ h => h)
      next => cases hs
    next => cases hs
  case sendFail k =>
    simp only [getCall] at hs
    split at hs
    next c hc =>
      split at hs
      next reg e hph =>
        cases hs
        cases reg
        · exact Shape.send _ <| SendShape.sentPlain k c _ hc (by simp [hph]) (by simp [hph]) (fun _ => ⟨rfl, rfl, rfl, rfl, rfl⟩)
        · exact Shape.send _ <| SendShape.sentFail k c e _ hc (.inr hph) (fun _ => ⟨rfl, rfl, rfl, rfl, rfl⟩)
      next => cases hs
    next => cases hs
  case feed f =>
    split at hs
    · cases hs
    · split at hs
      next hd => cases hs; exact Shape.feedD f hd
      next hd => cases hs; exact Shape.feedQ f (by simpa using hd)
  case rerr eof =>
    split at hs
    · cases hs
    · cases hs
      refine Shape.setReader _ (by simp) ?_
      intro e he a b; cases eof <;> simp at he <;> subst he <;> simp
  case seeClose =>
    split at hs
    · cases hs
      refine Shape.setReader _ (by simp) ?_
      intro e he a b; simp at he; subst he; simp
    · cases hs
  case close =>
    split at hs
    · cases hs; exact Shape.close s.closing s.msgsClosed _
    · cases hs; exact Shape.close true true _
  case closeSendQ =>
    split at hs
    · cases hs
    · split at hs
      · cases hs
      · cases hs; exact Shape.setReader _ (by simp) (by simp)
  case closeFinQ =>
    split at hs
    · cases hs
    · split at hs
      · cases hs
      · cases hs; exact Shape.setReader _ (by simp) (by simp)
  case brel k =>
    simp only [getCall] at hs
    split at hs
    next c hc =>
      split at hs
      · cases hs; exact Shape.inert k _ (fun _ => ⟨rfl, rfl, rfl, rfl, rfl⟩)
      · cases hs
    next => cases hs
  case wake k =>
    simp only [getCall] at hs
    split at hs
    next c hc =>
      split at hs
      · cases hs
      · split at hs
        · cases hs
        · cases hs; exact Shape.inert k _ (fun _ => ⟨rfl, rfl, rfl, rfl, rfl⟩)
    next => cases hs
  case cancel k =>
    simp only [getCall] at hs
    split at hs
    next c hc =>
      split at hs
      · cases hs
      · split at hs
        · cases hs
        · cases hs; exact Shape.inert k _ (fun _ => ⟨rfl, rfl, rfl, rfl, rfl⟩)
    next => cases hs
  case decode =>
    split at hs
    next hd =>
      split at hs
      next f hr =>
        have : s' = { (readFrame s f).1 with reader := afterRead f (readFrame s f).2 } := by
          cases h2 : (readFrame s f).2 <;> simp [h2, afterRead] at hs ⊢ <;> exact hs.symm
        rw [this]; exact Shape.decodeD f hd hr
      next => cases hs
    next hd =>
      split at hs
      next f rest hq => cases hs; exact Shape.decodeQ f rest (by simpa using hd) hq
      next => cases hs
  case finish k =>
    split at hs
    · cases hs
    split at hs
    next k' f hr =>
      split at hs
      next hk => cases hs; simp at hk; subst hk; exact Shape.finishR _ f hr
      next => cases hs
    next =>
      split at hs
      next hp =>
        split at hs
        next k' f rest hq =>
          split at hs
          next hk => cases hs; simp at hk; subst hk; exact Shape.finishQ _ f rest hp hq
          next => cases hs
        next => cases hs
      next hp =>
        split at hs
        next k' f hfind =>
          cases hs
          have h1 := List.mem_of_find?_eq_some hfind
          have h2 := List.find?_some hfind
          simp at h2; subst h2
          exact Shape.finishB (s := s) k' f (by simpa using hp) h1
        next => cases hs
  case runDone =>
    split at hs
    next k rest hq => cases hs; exact Shape.runDone k rest hq
    next => cases hs
  case sweep =>
    split at hs
    next e hr =>
      split at hs
      · cases hs
      · cases hs; exact Shape.sweep e hr
    next => cases hs

/-! ## quiet steps: those that leave form, phase and seq of every call alone -/

theorem same_readFrame {α : Type} {p : Call → α} (s : State) (f : Frame)
    (hp : ∀ c : Call, p { c with signals := c.signals + 1 } = p c)
    (hp' : ∀ (e : Err) (c : Call), p { c with errHist := c.errHist ++ [e] } = p c) :
    Same p s (readFrame s f).1 := by
  rcases readFrame_cases s f with h' | h' | ⟨k', c, _, _, _, h'⟩
  · rw [h']; exact Same.refl s
  · rw [h']; exact Same.refl s
  · rcases h' with ⟨e, _, h'⟩ | ⟨_, h'⟩ | ⟨_, h'⟩ | ⟨_, _, h'⟩ | ⟨_, _, h'⟩ <;> rw [h']
    · exact same_failCall (s := { s with pending := erase s.pending f.seq }) k' e hp (hp' e)
    · exact same_signal (s := { s with pending := erase s.pending f.seq }) k' hp
    · exact Same.refl s
    · exact Same.refl s
    · exact Same.refl s

theorem mem_erase {p : List (Nat × Nat)} {q : Nat} {x : Nat × Nat} (h : x ∈ erase p q) : x ∈ p :=
  (List.mem_filter.1 h).1

theorem readFrame_pending (s : State) (f : Frame) : ∀ x, x ∈ (readFrame s f).1.pending → x ∈ s.pending := by
  intro x
  rcases readFrame_cases s f with h' | h' | ⟨k', c, _, _, _, h'⟩
  · rw [h']; exact id
  · rw [h']; exact mem_erase
  · rcases h' with ⟨e, _, h'⟩ | ⟨_, h'⟩ | ⟨_, h'⟩ | ⟨_, _, h'⟩ | ⟨_, _, h'⟩ <;> rw [h']
    · rw [(untouched_failCall _ _ _).pending]; exact mem_erase
    · rw [(untouched_signal _ _).pending]; exact mem_erase
    · exact mem_erase
    · exact mem_erase
    · exact mem_erase

theorem sweepAll_untouched (s : State) (e : Err) :
    Untouched { s with shutdown := true, pending := [] } (sweepAll s e) :=
  foldl_failCall_inv (Untouched { s with shutdown := true, pending := [] }) e _
    (fun s' p _ h => h.trans (untouched_failCall s' p.2 e)) _ (Untouched.refl _)

theorem same_sweepAll {α : Type} {p : Call → α} (s : State) (e : Err)
    (hp : ∀ c : Call, p { c with signals := c.signals + 1 } = p c)
    (hp' : ∀ c : Call, p { c with errHist := c.errHist ++ [e] } = p c) : Same p s (sweepAll s e) :=
  foldl_failCall_inv (Same p s) e _
    (fun s' q _ h => h.trans (same_failCall s' q.2 e hp hp')) _ (Same.refl s)

structure Quiet (s s' : State) : Prop where
  same : Same core s s'
  cfg : s'.cfg = s.cfg
  sendQ : s'.sendQ = s.sendQ
  pending : ∀ x, x ∈ s'.pending → x ∈ s.pending
  fed : ∀ f, f ∈ s.fed → f ∈ s'.fed

theorem shape_quiet {s s' : State} (hs : Shape s s') : SendShape s s' ∨ Quiet s s' := by
  cases hs with
  | send _ hs => exact .inl hs
  | feedD f hd => exact .inr ⟨Same.refl s, rfl, rfl, fun _ h => h, fun _ h => List.mem_append_left _ h⟩
  | feedQ f hd => exact .inr ⟨Same.refl s, rfl, rfl, fun _ h => h, fun _ h => List.mem_append_left _ h⟩
  | setReader r hr => exact .inr ⟨Same.refl s, rfl, rfl, fun _ h => h, fun _ h => h⟩
  | close => exact .inr ⟨Same.refl s, rfl, rfl, fun _ h => h, fun _ h => h⟩
  | decodeD f hd hr =>
    exact .inr ⟨same_readFrame s f (fun _ => rfl) (fun _ _ => rfl), readFrame_cfg s f, readFrame_sendQ s f,
      readFrame_pending s f, fun x h => (readFrame_fed s f).symm ▸ h⟩
  | decodeQ f rest hd hq =>
    exact .inr ⟨same_readFrame { s with decodeQ := rest } f (fun _ => rfl) (fun _ _ => rfl), readFrame_cfg _ f,
      readFrame_sendQ _ f, readFrame_pending _ f, fun x h => (readFrame_fed { s with decodeQ := rest } f).symm ▸ h⟩
  | finishR k f hr =>
    have := untouched_finishCall s k f
    exact .inr ⟨same_finishCall s k f (fun _ => rfl) (fun _ => rfl), this.cfg, this.sendQ,
      fun x hx => this.pending ▸ hx, fun x hx => this.fed.symm ▸ hx⟩
  | finishQ k f rest hp hq =>
    have := untouched_finishCall { s with finQ := rest } k f
    exact .inr ⟨same_finishCall { s with finQ := rest } k f (fun _ => rfl) (fun _ => rfl), this.cfg, this.sendQ,
      fun x hx => this.pending ▸ hx, fun x hx => this.fed.symm ▸ hx⟩
  | finishB k f hp hm =>
    have := untouched_finishCall { s with finBag := s.finBag.filter (notFin k) } k f
    exact .inr ⟨same_finishCall { s with finBag := s.finBag.filter (notFin k) } k f (fun _ => rfl) (fun _ => rfl),
      this.cfg, this.sendQ, fun x hx => this.pending ▸ hx, fun x hx => this.fed.symm ▸ hx⟩
  | runDone k rest hq =>
    have := untouched_signal { s with finQ := rest } k
    exact .inr ⟨same_signal { s with finQ := rest } k (fun _ => rfl), this.cfg, this.sendQ,
      fun x hx => this.pending ▸ hx, fun x hx => this.fed.symm ▸ hx⟩
  | inert k g hg =>
    exact .inr ⟨same_updCall (fun c => by simp [core, (hg c).1, (hg c).2.1, (hg c).2.2.1]), rfl, rfl,
      fun _ h => h, fun _ h => h⟩
  | sweep e hr =>
    have := sweepAll_untouched s e
    refine .inr ⟨same_sweepAll s e (fun _ => rfl) (fun _ => rfl), this.cfg, this.sendQ, ?_, fun x hx => this.fed.symm ▸ hx⟩
    intro x hx
    have : x ∈ (sweepAll s e).pending := hx
    rw [(sweepAll_untouched s e).pending] at this
    simp at this

/-! ## ModeInv -/

theorem modeInv_init (cfg : Cfg) : ModeInv (init cfg) := by
  simp [ModeInv, init]

/-- ModeInv only looks at these fields -/
theorem modeInv_congr {s s' : State} (h : ModeInv s) (h0 : s'.cfg = s.cfg) (h1 : s'.decodeQ = s.decodeQ)
    (h2 : s'.finBag = s.finBag) (h3 : s'.finQ = s.finQ) (h4 : s'.sendQ = s.sendQ)
    (h5 : s'.reader = s.reader) : ModeInv s' := by
  unfold ModeInv; rw [h0, h1, h2, h3, h4, h5]; exact h

theorem modeInv_signal {s : State} (h : ModeInv s) (k : Nat) : ModeInv (signal s k) := by
  rw [signal_eq]; exact h

theorem modeInv_popSend {s : State} (h : ModeInv s) (k : Nat) : ModeInv (popSend s k) := by
  rw [popSend_eq]
  obtain ⟨h1, h2, h3, h4, h5⟩ := h
  refine ⟨h1, h2, ?_, h4, h5⟩
  intro hp; simp [h3 hp]

theorem modeInv_complete {s : State} (h : ModeInv s) (k : Nat) : ModeInv (complete s k) := by
  cases hp : s.cfg.pipe
  · rw [complete_nopipe hp]; exact h
  · rw [complete_pipe hp]
    obtain ⟨h1, h2, h3, h4, h5⟩ := h
    refine ⟨h1, h2, ?_, h4, h5⟩
    intro hp'; simp [hp] at hp'

theorem modeInv_failCall {s : State} (h : ModeInv s) (k : Nat) (e : Err) : ModeInv (failCall s k e) :=
  modeInv_complete (s := setErr s k e) h k

theorem modeInv_finishCall {s : State} (h : ModeInv s) (k : Nat) (f : Frame) : ModeInv (finishCall s k f) :=
  modeInv_signal (s := updCall s k _) h k

theorem readFrame_snd {s : State} {f : Frame} {k : Nat} (h : (readFrame s f).2 = some k) :
    s.cfg.pipe = false ∧ s.cfg.directIO = true := by
  rcases readFrame_cases s f with h' | h' | ⟨k', c, _, _, _, h'⟩
  · rw [h'] at h; simp at h
  · rw [h'] at h; simp at h
  · rcases h' with ⟨e, _, h'⟩ | ⟨_, h'⟩ | ⟨_, h'⟩ | ⟨h1, h2, h'⟩ | ⟨_, _, h'⟩
    all_goals first | exact ⟨h1, h2⟩ | (rw [h'] at h; simp at h)

theorem modeInv_readFrame {s : State} (h : ModeInv s) (f : Frame) : ModeInv (readFrame s f).1 := by
  have hpe : ModeInv { s with pending := erase s.pending f.seq } := h
  rcases readFrame_cases s f with h' | h' | ⟨k', c, _, _, _, h'⟩
  · rw [h']; exact h
  · rw [h']; exact h
  · rcases h' with ⟨e, _, h'⟩ | ⟨_, h'⟩ | ⟨hp, h'⟩ | ⟨_, _, h'⟩ | ⟨hp, _, h'⟩
    · rw [h']; exact modeInv_failCall hpe _ _
    · rw [h']; exact modeInv_signal hpe _
    · rw [h']
      obtain ⟨h1, h2, h3, h4, h5⟩ := h
      refine ⟨h1, h2, ?_, h4, h5⟩
      intro hp'; simp [hp] at hp'
    · rw [h']; exact h
    · rw [h']
      obtain ⟨h1, h2, h3, h4, h5⟩ := h
      refine ⟨h1, ?_, h3, h4, h5⟩
      intro hp'; simp [hp] at hp'

theorem modeInv_setReader {s : State} (h : ModeInv s) (r : Reader) (hr : ∀ f k, r ≠ .decoding f ∧ r ≠ .finishing k f) :
    ModeInv { s with reader := r } := by
  obtain ⟨h1, h2, h3, h4, h5⟩ := h
  exact ⟨h1, h2, h3, fun _ => hr, fun _ f k => (hr f k).2⟩

theorem modeInv_sweepAll {s : State} (h : ModeInv s) (e : Err) : ModeInv (sweepAll s e) :=
  foldl_failCall_inv ModeInv e _ (fun _ p _ h => modeInv_failCall h p.2 e) _ h

theorem modeInv_send {s s' : State} (h : ModeInv s) (hs : SendShape s s') : ModeInv s' := by
  cases hs with
  | start c hc =>
    obtain ⟨h1, h2, h3, h4, h5⟩ := h
    refine ⟨h1, h2, ?_, h4, h5⟩
    intro hp; have hp' : s.cfg.pipe = false := hp
    simp [addCall, hp', h3 hp']
  | sentPlain k c g => exact modeInv_popSend (s := updCall s k g) h k
  | sentFail k c e g => exact modeInv_popSend (s := updCall (failCall s k e) k g) (modeInv_failCall h k e) k
  | sentReg k c w g => exact modeInv_popSend (s := updCall (regd s k w) k g) h k
  | reg => exact h
  | setPhase => exact h

theorem modeInv_shape {s s' : State} (h : ModeInv s) (hs : Shape s s') : ModeInv s' := by
  cases hs with
  | send _ hs => exact modeInv_send h hs
  | feedD f hd =>
    obtain ⟨h1, h2, h3, h4, h5⟩ := h
    refine ⟨h1, h2, h3, ?_, ?_⟩
    · intro hd'; have : s.cfg.directIO = false := hd'; simp [hd] at this
    · intro _ f k; simp
  | feedQ f hd =>
    obtain ⟨h1, h2, h3, h4, h5⟩ := h
    refine ⟨?_, h2, h3, h4, h5⟩
    intro hd'; have : s.cfg.directIO = true := hd'; simp [hd] at this
  | setReader r hr => exact modeInv_setReader h r hr
  | close => exact h
  | decodeD f hd hr =>
    have h' := modeInv_readFrame h f
    obtain ⟨h1, h2, h3, h4, h5⟩ := h'
    have hcfg : (readFrame s f).1.cfg = s.cfg := readFrame_cfg s f
    refine ⟨h1, h2, h3, ?_, ?_⟩
    · intro hd'; have : (readFrame s f).1.cfg.directIO = false := hd'; simp [hcfg, hd] at this
    · intro hp f' k'
      have hp' : s.cfg.pipe = true := by rw [← hcfg]; exact hp
      cases h2 : (readFrame s f).2 with
      | none => simp [afterRead]
      | some k => have := readFrame_snd h2; simp [hp'] at this
  | decodeQ f rest hd hq =>
    refine modeInv_readFrame ?_ f
    obtain ⟨h1, h2, h3, h4, h5⟩ := h
    refine ⟨?_, h2, h3, h4, h5⟩
    intro hd'; have : s.cfg.directIO = true := hd'; simp [hd] at this
  | finishR k f hr =>
    exact modeInv_setReader (modeInv_finishCall h k f) .waiting (by simp)
  | finishQ k f rest hp hq =>
    refine modeInv_finishCall ?_ k f
    obtain ⟨h1, h2, h3, h4, h5⟩ := h
    refine ⟨h1, h2, ?_, h4, h5⟩
    intro hp'; have : s.cfg.pipe = false := hp'; simp [hp] at this
  | finishB k f hp hm =>
    refine modeInv_finishCall ?_ k f
    obtain ⟨h1, h2, h3, h4, h5⟩ := h
    refine ⟨h1, ?_, h3, h4, h5⟩
    intro hp'; have : s.cfg.pipe = true := hp'; simp [hp] at this
  | runDone k rest hq =>
    refine modeInv_signal ?_ k
    obtain ⟨h1, h2, h3, h4, h5⟩ := h
    refine ⟨h1, h2, ?_, h4, h5⟩
    intro hp'; have := (h3 hp').1; simp [hq] at this
  | inert => exact h
  | sweep e hr => exact modeInv_setReader (modeInv_sweepAll h e) .swept (by simp)

theorem modeInv_step {s s' : State} {e : Ev} (h : ModeInv s) (hs : step s e = some s') : ModeInv s' :=
  modeInv_shape h (step_shape hs)

/-! ## per-call facts about phase and seq -/

theorem updCall_some {s : State} {k : Nat} {g : Call → Call} {j : Nat} {c' : Call}
    (h : (updCall s k g).calls j = some c') :
    (j ≠ k ∧ s.calls j = some c') ∨ (j = k ∧ ∃ c, s.calls k = some c ∧ c' = g c) := by
  rw [updCall_calls] at h
  split at h
  next hj =>
    cases hc : s.calls k with
    | none => simp [hc] at h
    | some c => simp [hc] at h; exact .inr ⟨hj, c, rfl, h.symm⟩
  next hj => exact .inl ⟨hj, h⟩

theorem updCall_self {s : State} {k : Nat} {g : Call → Call} {c : Call} (h : s.calls k = some c) :
    (updCall s k g).calls k = some (g c) := by
  simp [updCall_calls, h]

theorem updCall_other {s : State} {k : Nat} {g : Call → Call} {j : Nat} (h : j ≠ k) :
    (updCall s k g).calls j = s.calls j := by
  simp [updCall_calls, h]

theorem updCall_updCall (s : State) (k : Nat) (f g : Call → Call) :
    updCall (updCall s k f) k g = updCall s k (fun c => g (f c)) := by
  unfold updCall
  congr 1
  funext j
  by_cases hj : j = k
  · simp [hj, Option.map_map, Function.comp_def]
  · simp [hj]

def LocalOk (c : Call) : Prop :=
  (c.phase = .new → c.seq = none) ∧ (c.phase ≠ .new → c.phase ≠ .sent → c.seq.isSome = true) ∧
  (∀ e, phaseErr c.phase = some e → noText e)

def LocalInv (s : State) : Prop := ∀ k c, s.calls k = some c → LocalOk c

theorem localInv_init (cfg : Cfg) : LocalInv (init cfg) := by
  intro k c h; simp [init] at h

theorem localInv_same {s s' : State} (h : LocalInv s) (hc : Same core s s') : LocalInv s' := by
  intro k c' hc'
  obtain ⟨c, hk, he⟩ := hc.get' hc'
  have := h k c hk
  simp only [core, Prod.mk.injEq] at he
  unfold LocalOk at *
  rw [he.2.1, he.2.2]; exact this

theorem localInv_updCall {s : State} (h : LocalInv s) (k : Nat) (g : Call → Call)
    (hk : ∀ c, s.calls k = some c → LocalOk c → LocalOk (g c)) : LocalInv (updCall s k g) := by
  intro j c' hc'
  rcases updCall_some hc' with ⟨_, h'⟩ | ⟨rfl, c, hc, rfl⟩
  · exact h j c' h'
  · exact hk c hc (h j c hc)

theorem localOk_sent {g : Call → Call} (hg : PhaseFn .sent g) (c : Call) : LocalOk (g c) := by
  obtain ⟨h1, -⟩ := hg c
  refine ⟨?_, ?_, ?_⟩ <;> simp [h1, phaseErr]

theorem noText_wfail : noText .wfail := by intro a b; simp
theorem noText_encfail : noText .encfail := by intro a b; simp
theorem noText_shutdown : noText .shutdown := by intro a b; simp

theorem localInv_send {s s' : State} (h : LocalInv s) (hs : SendShape s s') : LocalInv s' := by
  cases hs with
  | start c hc hph hseq =>
    intro j c' hc'
    simp only [addCall] at hc'
    split at hc'
    · cases hc'; exact ⟨fun _ => hseq, fun h => absurd hph h, by simp [hph, phaseErr]⟩
    · exact h j c' hc'
  | sentPlain k c g hc _ _ hg =>
    rw [popSend_eq]
    exact localInv_updCall h k g (fun c _ _ => localOk_sent hg c)
  | sentFail k c e g hc _ hg =>
    rw [popSend_eq]
    exact localInv_updCall (s := failCall s k e)
      (localInv_same h (same_failCall s k e (fun _ => rfl) (fun _ => rfl))) k g (fun c _ _ => localOk_sent hg c)
  | sentReg k c w g hc _ _ hg =>
    rw [popSend_eq, regd, updCall_updCall]
    exact localInv_updCall (s := { s with seq := s.seq + 1, pending := s.pending ++ [(s.seq, k)], writes := w })
      h k _ (fun c _ _ => localOk_sent hg _)
  | reg k c w ph g hc _ _ hg hph =>
    rw [regd, updCall_updCall]
    refine localInv_updCall (s := { s with seq := s.seq + 1, pending := s.pending ++ [(s.seq, k)], writes := w })
      h k _ (fun c _ _ => ?_)
    obtain ⟨h1, _, h3, _⟩ := hg { c with seq := some s.seq }
    refine ⟨?_, ?_, ?_⟩
    · rw [h1]; rcases hph with rfl | rfl <;> simp
    · intro _ _; rw [h3]; rfl
    · rw [h1]; rcases hph with rfl | rfl <;> simp [phaseErr]
      exact noText_encfail
  | setPhase k c ph g pd hc hn hs' hphn hphs hg he _ =>
    refine localInv_updCall (s := { s with pending := pd }) h k g (fun c' hc' hok => ?_)
    have : c' = c := by
      have : s.calls k = some c' := hc'
      rw [hc] at this; cases this; rfl
    subst this
    obtain ⟨h1, _, h3, _⟩ := hg c'
    refine ⟨?_, ?_, ?_⟩
    · rw [h1]; intro h; exact absurd h hphn
    · intro _ _; rw [h3]; exact hok.2.1 hn hs'
    · rw [h1]; intro e hpe
      rcases he e hpe with rfl | h'
      · exact noText_wfail
      · exact hok.2.2 e h'

theorem localInv_shape {s s' : State} (h : LocalInv s) (hs : Shape s s') : LocalInv s' := by
  rcases shape_quiet hs with hs | hq
  · exact localInv_send h hs
  · exact localInv_same h hq.same

/-! ## pending entries point to their call -/

def PendSeq (s : State) : Prop := ∀ q k, (q, k) ∈ s.pending → ∃ c, s.calls k = some c ∧ c.seq = some q

theorem pendSeq_init (cfg : Cfg) : PendSeq (init cfg) := by
  intro q k h; simp [init] at h

theorem pendSeq_same {s s' : State} (h : PendSeq s) (hc : Same Call.seq s s')
    (hp : ∀ x, x ∈ s'.pending → x ∈ s.pending) : PendSeq s' := by
  intro q k hm
  obtain ⟨c, hk, hq⟩ := h q k (hp _ hm)
  obtain ⟨c', hk', he⟩ := hc.get hk
  exact ⟨c', hk', he.trans hq⟩

theorem pendSeq_updCall {s : State} (h : PendSeq s) (k : Nat) (g : Call → Call) (hg : ∀ c, (g c).seq = c.seq) :
    PendSeq (updCall s k g) :=
  pendSeq_same h (same_updCall hg) (fun _ hx => hx)

theorem pendSeq_regd {s : State} (h : PendSeq s) (hl : LocalInv s) {k : Nat} {c : Call} (hc : s.calls k = some c)
    (hph : c.phase = .new) (w : List (Nat × Nat × UInt8)) : PendSeq (regd s k w) := by
  intro q j hm
  have hm' : (q, j) ∈ s.pending ++ [(s.seq, k)] := hm
  rw [List.mem_append] at hm'
  rcases hm' with hm' | hm'
  · obtain ⟨c', hj, hq⟩ := h q j hm'
    have hjk : j ≠ k := by
      rintro rfl
      rw [hc] at hj; cases hj
      rw [(hl _ _ hc).1 hph] at hq; cases hq
    exact ⟨c', by rw [regd, updCall_other hjk]; exact hj, hq⟩
  · simp at hm'
    obtain ⟨rfl, rfl⟩ := hm'
    exact ⟨_, updCall_self (s := { s with seq := s.seq + 1, pending := s.pending ++ [(s.seq, j)], writes := w }) hc, rfl⟩

theorem pendSeq_send {s s' : State} (h : PendSeq s) (hl : LocalInv s) (hs : SendShape s s') : PendSeq s' := by
  cases hs with
  | start c hc hph hseq =>
    intro q k hm
    obtain ⟨c', hk, hq⟩ := h q k hm
    refine ⟨c', ?_, hq⟩
    simp only [addCall]
    split
    · next hj => subst hj; rw [hc] at hk; cases hk
    · exact hk
  | sentPlain k c g hc _ _ hg =>
    rw [popSend_eq]; exact pendSeq_updCall h k g (fun c => (hg c).2.2.1)
  | sentFail k c e g hc _ hg =>
    rw [popSend_eq]
    refine pendSeq_updCall (s := failCall s k e) ?_ k g (fun c => (hg c).2.2.1)
    exact pendSeq_same h (same_failCall s k e (fun _ => rfl) (fun _ => rfl))
      (fun x hx => (untouched_failCall s k e).pending ▸ hx)
  | sentReg k c w g hc hph _ hg =>
    rw [popSend_eq]
    refine pendSeq_updCall (s := regd s k w) ?_ k g (fun c => (hg c).2.2.1)
    exact pendSeq_regd h hl hc hph w
  | reg k c w ph g hc hph _ hg _ =>
    refine pendSeq_updCall (s := regd s k w) ?_ k g (fun c => (hg c).2.2.1)
    exact pendSeq_regd h hl hc hph w
  | setPhase k c ph g pd hc _ _ _ _ hg _ hpd =>
    refine pendSeq_updCall (s := { s with pending := pd }) ?_ k g (fun c => (hg c).2.2.1)
    exact pendSeq_same h (Same.refl s) hpd

theorem pendSeq_shape {s s' : State} (h : PendSeq s) (hl : LocalInv s) (hs : Shape s s') : PendSeq s' := by
  rcases shape_quiet hs with hs | hq
  · exact pendSeq_send h hl hs
  · exact pendSeq_same h hq.same.seq hq.pending

/-! ## SendQInv -/

/-- the pipelining half of SendQInv, plus: the send queue only holds started calls -/
def SQ (s : State) : Prop :=
  s.cfg.pipe = true →
    (∀ k c, s.calls k = some c → (c.phase ≠ .sent ↔ k ∈ s.sendQ)) ∧ s.sendQ.Nodup ∧
    (∀ k c, k ∈ s.sendQ → s.calls k = some c → c.phase ≠ .new → s.sendQ.head? = some k) ∧
    (∀ k, k ∈ s.sendQ → (s.calls k).isSome = true)

theorem sendQInv_of {s : State} (h : SQ s) (hl : LocalInv s) : SendQInv s :=
  ⟨fun hp => ⟨(h hp).1, (h hp).2.1, (h hp).2.2.1⟩, fun k c hc => (hl k c hc).2.1⟩

theorem sq_init (cfg : Cfg) : SQ (init cfg) := by
  intro _; simp [init]

theorem sq_same {s s' : State} (h : SQ s) (hc : Same Call.phase s s') (h0 : s'.cfg = s.cfg)
    (h1 : s'.sendQ = s.sendQ) : SQ s' := by
  intro hp
  rw [h0] at hp
  obtain ⟨a1, a2, a3, a4⟩ := h hp
  rw [h1]
  refine ⟨?_, a2, ?_, ?_⟩
  · intro k c' hk
    obtain ⟨c, hk', he⟩ := hc.get' hk
    rw [he]; exact a1 k c hk'
  · intro k c' hm hk
    obtain ⟨c, hk', he⟩ := hc.get' hk
    rw [he]; exact a3 k c hm hk'
  · intro k hm; rw [hc.isSome]; exact a4 k hm

theorem sq_head {s : State} (h : SQ s) (hp : s.cfg.pipe = true) {k : Nat} {c : Call} (hc : s.calls k = some c)
    (h1 : c.phase ≠ .new) (h2 : c.phase ≠ .sent) : s.sendQ.head? = some k := by
  obtain ⟨a1, _, a3, _⟩ := h hp
  exact a3 k c ((a1 k c hc).1 h2) hc h1

theorem sq_sent {s : State} (h : SQ s) {k : Nat} {c : Call} (hc : s.calls k = some c)
    (hh : s.cfg.pipe = true → s.sendQ.head? = some k) {g : Call → Call} (hg : PhaseFn .sent g) :
    SQ (popSend (updCall s k g) k) := by
  intro hp
  rw [popSend_eq] at hp ⊢
  have hp' : s.cfg.pipe = true := hp
  obtain ⟨a1, a2, a3, a4⟩ := h hp'
  have hsq : (if (updCall s k g).cfg.pipe = true then (updCall s k g).sendQ.filter (· != k) else (updCall s k g).sendQ)
      = s.sendQ.filter (· != k) := by
    show (if s.cfg.pipe = true then _ else _) = _
    rw [if_pos hp']; rfl
  simp only [hsq]
  refine ⟨?_, a2.filter _, ?_, ?_⟩
  · intro j c' hj
    rcases updCall_some hj with ⟨hjk, hj'⟩ | ⟨rfl, c0, _, rfl⟩
    · rw [a1 j c' hj']; simp [hjk]
    · simp [(hg c0).1]
  · intro j c' hm hj hph
    simp only [List.mem_filter, bne_iff_ne, ne_eq] at hm
    rcases updCall_some hj with ⟨hjk, hj'⟩ | ⟨rfl, c0, _, rfl⟩
    · have := a3 j c' hm.1 hj' hph
      rw [hh hp'] at this; cases this; exact absurd rfl hjk
    · exact absurd rfl hm.2
  · intro j hm
    simp only [List.mem_filter, bne_iff_ne, ne_eq] at hm
    rw [updCall_other hm.2]; exact a4 j hm.1

theorem sq_phase {s : State} (h : SQ s) {k : Nat} {c : Call} (hc : s.calls k = some c) (hns : c.phase ≠ .sent)
    (hh : s.cfg.pipe = true → s.sendQ.head? = some k) {ph : Phase} {g : Call → Call} (hg : PhaseFn ph g)
    (hph : ph ≠ .sent) : SQ (updCall s k g) := by
  intro hp
  have hp' : s.cfg.pipe = true := hp
  obtain ⟨a1, a2, a3, a4⟩ := h hp'
  refine ⟨?_, a2, ?_, ?_⟩
  · intro j c' hj
    rcases updCall_some hj with ⟨hjk, hj'⟩ | ⟨rfl, c0, hc0, rfl⟩
    · exact a1 j c' hj'
    · rw [hc] at hc0; cases hc0
      rw [(hg c).1]
      have : j ∈ s.sendQ := (a1 j c hc).1 hns
      simp [hph]; exact this
  · intro j c' hm hj hph'
    rcases updCall_some hj with ⟨hjk, hj'⟩ | ⟨rfl, c0, _, rfl⟩
    · exact a3 j c' hm hj' hph'
    · exact hh hp'
  · intro j hm
    have := a4 j hm
    by_cases hjk : j = k
    · subst hjk; rw [updCall_self hc]; rfl
    · rw [updCall_other hjk]; exact this

theorem sq_regd {s : State} (h : SQ s) (k : Nat) (w : List (Nat × Nat × UInt8)) : SQ (regd s k w) :=
  sq_same h (same_updCall (s := { s with seq := s.seq + 1, pending := s.pending ++ [(s.seq, k)], writes := w })
    (fun _ => rfl)) rfl rfl

theorem regd_self {s : State} {k : Nat} {c : Call} (hc : s.calls k = some c) (w : List (Nat × Nat × UInt8)) :
    (regd s k w).calls k = some { c with seq := some s.seq } :=
  updCall_self (s := { s with seq := s.seq + 1, pending := s.pending ++ [(s.seq, k)], writes := w }) hc

theorem sq_start {s : State} (h : SQ s) {c : Call} (hc : s.calls c.k = none) (hph : c.phase = .new) :
    SQ (addCall s c) := by
  intro hp
  have hp' : s.cfg.pipe = true := hp
  obtain ⟨a1, a2, a3, a4⟩ := h hp'
  have hsq : (addCall s c).sendQ = s.sendQ ++ [c.k] := by simp [addCall, hp']
  have hcalls : ∀ j, (addCall s c).calls j = if j = c.k then some c else s.calls j := fun _ => rfl
  have hnot : c.k ∉ s.sendQ := by
    intro hm; have := a4 _ hm; rw [hc] at this; cases this
  rw [hsq]
  refine ⟨?_, ?_, ?_, ?_⟩
  · intro j c' hj
    rw [hcalls] at hj
    split at hj
    next hjk => cases hj; subst hjk; simp [hph]
    next hjk => rw [a1 j c' hj]; simp [hjk]
  · rw [List.nodup_append]
    refine ⟨a2, by simp, ?_⟩
    intro a ha b hb; simp at hb; subst hb; rintro rfl; exact hnot ha
  · intro j c' hm hj hph'
    rw [hcalls] at hj
    split at hj
    next hjk => cases hj; exact absurd hph hph'
    next hjk =>
      have hm' : j ∈ s.sendQ := by simpa [hjk] using hm
      have := a3 j c' hm' hj hph'
      cases hq : s.sendQ with
      | nil => rw [hq] at hm'; cases hm'
      | cons x xs => rw [hq] at this; simpa using this
  · intro j hm
    rw [hcalls]
    split
    · rfl
    · next hjk => exact a4 j (by simpa [hjk] using hm)

theorem sq_send {s s' : State} (h : SQ s) (hs : SendShape s s') : SQ s' := by
  cases hs with
  | start c hc hph => exact sq_start h hc hph
  | sentPlain k c g hc hn hs' hg => exact sq_sent h hc (fun hp => sq_head h hp hc hn hs') hg
  | sentFail k c e g hc hcase hg =>
    have hsame := same_failCall (p := Call.phase) s k e (fun _ => rfl) (fun _ => rfl)
    have hu := untouched_failCall s k e
    obtain ⟨c1, hc1, he⟩ := hsame.get hc
    refine sq_sent (sq_same h hsame hu.cfg hu.sendQ) hc1 ?_ hg
    intro hp
    rw [hu.cfg] at hp; rw [hu.sendQ]
    rcases hcase with ⟨_, hh, _⟩ | hph
    · exact hh hp
    · exact sq_head h hp hc (by simp [hph]) (by simp [hph])
  | sentReg k c w g hc hph hh hg => exact sq_sent (sq_regd h k w) (regd_self hc w) hh hg
  | reg k c w ph g hc hph hh hg hcase =>
    refine sq_phase (sq_regd h k w) (regd_self hc w) (by simp [hph]) hh hg ?_
    rcases hcase with rfl | rfl <;> simp
  | setPhase k c ph g pd hc hn hs' hphn hphs hg _ _ =>
    exact sq_phase (s := { s with pending := pd }) h hc hs' (fun hp => sq_head h hp hc hn hs') hg hphs

theorem sq_shape {s s' : State} (h : SQ s) (hs : Shape s s') : SQ s' := by
  rcases shape_quiet hs with hs | hq
  · exact sq_send h hs
  · exact sq_same h hq.same.phase hq.cfg hq.sendQ

/-! ## TaskInv -/

theorem taskInv_init (cfg : Cfg) : TaskInv (init cfg) := by
  simp [TaskInv, init]

theorem frameOk_same {s s' : State} (hc : Same Call.seq s s') (hfed : ∀ x, x ∈ s.fed → x ∈ s'.fed) {k : Nat}
    {f : Frame} (h : frameOk s k f) : frameOk s' k f := by
  obtain ⟨h1, h2, c, hk, hq⟩ := h
  obtain ⟨c', hk', he⟩ := hc.get hk
  exact ⟨hfed _ h1, h2, c', hk', he.trans hq⟩

theorem taskInv_mono {s s' : State} (h : TaskInv s) (hfm : ∀ k f, frameOk s k f → frameOk s' k f)
    (hfed : ∀ x, x ∈ s.fed → x ∈ s'.fed)
    (h1 : ∀ k f, .fin k f ∈ s'.finQ → .fin k f ∈ s.finQ ∨ frameOk s' k f)
    (h2 : ∀ k f, .fin k f ∈ s'.finBag → .fin k f ∈ s.finBag ∨ frameOk s' k f)
    (h3 : ∀ k f, s'.reader = .finishing k f → s.reader = .finishing k f ∨ frameOk s' k f)
    (h4 : ∀ f, f ∈ s'.decodeQ → f ∈ s.decodeQ ∨ f ∈ s'.fed)
    (h5 : ∀ f, s'.reader = .decoding f → s.reader = .decoding f ∨ f ∈ s'.fed) : TaskInv s' := by
  obtain ⟨t1, t2, t3⟩ := h
  refine ⟨?_, ?_, ?_⟩
  · intro k f hh
    rcases hh with hh | hh | hh
    · rcases h1 k f hh with hh | hh
      · exact hfm k f (t1 k f (.inl hh))
      · exact hh
    · rcases h2 k f hh with hh | hh
      · exact hfm k f (t1 k f (.inr (.inl hh)))
      · exact hh
    · rcases h3 k f hh with hh | hh
      · exact hfm k f (t1 k f (.inr (.inr hh)))
      · exact hh
  · intro f hf
    rcases h4 f hf with hh | hh
    · exact hfed f (t2 f hh)
    · exact hh
  · intro f hf
    rcases h5 f hf with hh | hh
    · exact hfed f (t3 f hh)
    · exact hh

private theorem signal_finQ (s : State) (k : Nat) : (signal s k).finQ = s.finQ := by rw [signal_eq]

theorem finishCall_finQ (s : State) (k : Nat) (f : Frame) : (finishCall s k f).finQ = s.finQ := by
  rw [finishCall_eq, signal_finQ]; rfl

private theorem complete_finQ (s : State) (k : Nat) :
    (complete s k).finQ = if s.cfg.pipe then s.finQ ++ [.done k] else s.finQ := by
  cases h : s.cfg.pipe
  · rw [complete_nopipe h]; simp
  · rw [complete_pipe h]; simp

theorem failCall_finQ (s : State) (k : Nat) (e : Err) :
    (failCall s k e).finQ = if s.cfg.pipe then s.finQ ++ [.done k] else s.finQ :=
  complete_finQ (setErr s k e) k

theorem failCall_fin {s : State} {k : Nat} {e : Err} {j : Nat} {f : Frame} (h : .fin j f ∈ (failCall s k e).finQ) :
    .fin j f ∈ s.finQ := by
  rw [failCall_finQ] at h
  split at h
  · simpa using h
  · exact h

theorem taskInv_quietOp {s s' : State} (h : TaskInv s) (hu : Untouched s s') (hc : Same Call.seq s s')
    (hq : ∀ k f, .fin k f ∈ s'.finQ → .fin k f ∈ s.finQ) : TaskInv s' :=
  taskInv_mono h (fun _ _ => frameOk_same hc (fun _ hx => hu.fed ▸ hx)) (fun _ hx => hu.fed ▸ hx)
    (fun k f hh => .inl (hq k f hh)) (fun _ _ hh => .inl (hu.finBag ▸ hh)) (fun _ _ hh => .inl (hu.reader ▸ hh))
    (fun _ hh => .inl (hu.decodeQ ▸ hh)) (fun _ hh => .inl (hu.reader ▸ hh))

theorem taskInv_failCall {s : State} (h : TaskInv s) (k : Nat) (e : Err) : TaskInv (failCall s k e) :=
  taskInv_quietOp h (untouched_failCall s k e) (same_failCall s k e (fun _ => rfl) (fun _ => rfl))
    (fun _ _ => failCall_fin)

theorem taskInv_signal {s : State} (h : TaskInv s) (k : Nat) : TaskInv (signal s k) :=
  taskInv_quietOp h (untouched_signal s k) (same_signal s k (fun _ => rfl))
    (fun _ _ hh => signal_finQ s k ▸ hh)

theorem taskInv_finishCall {s : State} (h : TaskInv s) (k : Nat) (f : Frame) : TaskInv (finishCall s k f) :=
  taskInv_quietOp h (untouched_finishCall s k f) (same_finishCall s k f (fun _ => rfl) (fun _ => rfl))
    (fun _ _ hh => finishCall_finQ s k f ▸ hh)

theorem taskInv_sweepAll {s : State} (h : TaskInv s) (e : Err) : TaskInv (sweepAll s e) :=
  foldl_failCall_inv TaskInv e _ (fun _ p _ h => taskInv_failCall h p.2 e) _ h

private theorem lookup_mem {p : List (Nat × Nat)} {q k : Nat} (h : lookup p q = some k) : (q, k) ∈ p := by
  unfold lookup at h
  cases hf : p.find? (·.1 == q) with
  | none => simp [hf] at h
  | some x =>
    simp [hf] at h
    have h1 := List.mem_of_find?_eq_some hf
    have h2 := List.find?_some hf
    simp at h2
    obtain ⟨a, b⟩ := x
    simp at h h2; subst h h2; exact h1

theorem taskInv_readFrame {s : State} (h : TaskInv s) (hp : PendSeq s) {f : Frame} (hf : f ∈ s.fed) :
    TaskInv (readFrame s f).1 ∧ ∀ k, (readFrame s f).2 = some k → frameOk (readFrame s f).1 k f := by
  rcases readFrame_cases s f with h' | h' | ⟨k', c, hl, hc, hj, h'⟩
  · rw [h']; exact ⟨h, by simp⟩
  · rw [h']; exact ⟨h, by simp⟩
  · have hok : ∀ s' : State, s'.fed = s.fed → s'.calls = s.calls → frameOk s' k' f := by
      intro s' h1 h2
      obtain ⟨c0, hc0, hq⟩ := hp _ _ (lookup_mem hl)
      exact ⟨h1 ▸ hf, hj, c0, h2 ▸ hc0, hq⟩
    have h0 : TaskInv { s with pending := erase s.pending f.seq } := h
    rcases h' with ⟨e, _, h'⟩ | ⟨_, h'⟩ | ⟨_, h'⟩ | ⟨_, _, h'⟩ | ⟨_, _, h'⟩ <;> rw [h']
    · exact ⟨taskInv_failCall h0 _ _, by simp⟩
    · exact ⟨taskInv_signal h0 _, by simp⟩
    · refine ⟨?_, by simp⟩
      refine taskInv_mono h (fun _ _ hh => hh) (fun _ hh => hh) ?_ (fun _ _ hh => .inl hh) (fun _ _ hh => .inl hh)
        (fun _ hh => .inl hh) (fun _ hh => .inl hh)
      intro k f' hm
      have hm' : Task.fin k f' ∈ s.finQ ++ [.fin k' f] := hm
      simp only [List.mem_append, List.mem_singleton, Task.fin.injEq] at hm'
      rcases hm' with hm' | ⟨rfl, rfl⟩
      · exact .inl hm'
      · exact .inr (hok _ rfl rfl)
    · refine ⟨h, ?_⟩
      intro k hk; simp at hk; subst hk
      exact hok _ rfl rfl
    · refine ⟨?_, by simp⟩
      refine taskInv_mono h (fun _ _ hh => hh) (fun _ hh => hh) (fun _ _ hh => .inl hh) ?_ (fun _ _ hh => .inl hh)
        (fun _ hh => .inl hh) (fun _ hh => .inl hh)
      intro k f' hm
      have hm' : Task.fin k f' ∈ s.finBag ++ [.fin k' f] := hm
      simp only [List.mem_append, List.mem_singleton, Task.fin.injEq] at hm'
      rcases hm' with hm' | ⟨rfl, rfl⟩
      · exact .inl hm'
      · exact .inr (hok _ rfl rfl)

theorem taskInv_eqs {s s' : State} (h : TaskInv s) (hfm : ∀ k f, frameOk s k f → frameOk s' k f)
    (e1 : s'.finQ = s.finQ) (e2 : s'.finBag = s.finBag) (e3 : s'.reader = s.reader) (e4 : s'.decodeQ = s.decodeQ)
    (e5 : s'.fed = s.fed) : TaskInv s' :=
  taskInv_mono h hfm (fun _ hx => e5 ▸ hx) (fun _ _ hh => .inl (e1 ▸ hh)) (fun _ _ hh => .inl (e2 ▸ hh))
    (fun _ _ hh => .inl (e3 ▸ hh)) (fun _ hh => .inl (e4 ▸ hh)) (fun _ hh => .inl (e3 ▸ hh))

theorem taskInv_popUpd {s : State} (h : TaskInv s) (k : Nat) {g : Call → Call} (hg : ∀ c, (g c).seq = c.seq) :
    TaskInv (popSend (updCall s k g) k) := by
  rw [popSend_eq]
  exact taskInv_eqs h (fun _ _ => frameOk_same (same_updCall (s := s) (k := k) hg) (fun _ hx => hx)) rfl rfl rfl rfl rfl

theorem frameOk_regd {s : State} (hl : LocalInv s) {k : Nat} {c : Call} (hc : s.calls k = some c)
    (hph : c.phase = .new) (w : List (Nat × Nat × UInt8)) {j : Nat} {f : Frame} (h : frameOk s j f) :
    frameOk (regd s k w) j f := by
  obtain ⟨h1, h2, c0, hj, hq⟩ := h
  have hjk : j ≠ k := by
    rintro rfl
    rw [hc] at hj; cases hj
    rw [(hl _ _ hc).1 hph] at hq; cases hq
  exact ⟨h1, h2, c0, by rw [regd, updCall_other hjk]; exact hj, hq⟩

theorem taskInv_regd {s : State} (h : TaskInv s) (hl : LocalInv s) {k : Nat} {c : Call} (hc : s.calls k = some c)
    (hph : c.phase = .new) (w : List (Nat × Nat × UInt8)) : TaskInv (regd s k w) :=
  taskInv_eqs h (fun _ _ => frameOk_regd hl hc hph w) rfl rfl rfl rfl rfl

theorem taskInv_send {s s' : State} (h : TaskInv s) (hl : LocalInv s) (hs : SendShape s s') : TaskInv s' := by
  cases hs with
  | start c hc hph =>
    refine taskInv_eqs h ?_ rfl rfl rfl rfl rfl
    rintro k f ⟨h1, h2, c0, hk, hq⟩
    refine ⟨h1, h2, c0, ?_, hq⟩
    simp only [addCall]
    split
    · next hj => subst hj; rw [hc] at hk; cases hk
    · exact hk
  | sentPlain k c g hc _ _ hg => exact taskInv_popUpd h k (fun c => (hg c).2.2.1)
  | sentFail k c e g hc _ hg => exact taskInv_popUpd (taskInv_failCall h k e) k (fun c => (hg c).2.2.1)
  | sentReg k c w g hc hph _ hg => exact taskInv_popUpd (taskInv_regd h hl hc hph w) k (fun c => (hg c).2.2.1)
  | reg k c w ph g hc hph _ hg _ =>
    exact taskInv_eqs (taskInv_regd h hl hc hph w)
      (fun _ _ => frameOk_same (same_updCall (fun c => (hg c).2.2.1)) (fun _ hx => hx)) rfl rfl rfl rfl rfl
  | setPhase k c ph g pd hc _ _ _ _ hg _ hpd =>
    exact taskInv_eqs h
      (fun _ _ => frameOk_same (same_updCall (s := { s with pending := pd }) (fun c => (hg c).2.2.1)) (fun _ hx => hx))
      rfl rfl rfl rfl rfl

theorem taskInv_setReader {s : State} (h : TaskInv s) (r : Reader) (hr : ∀ f k, r ≠ .decoding f ∧ r ≠ .finishing k f) :
    TaskInv { s with reader := r } :=
  taskInv_mono h (fun _ _ hh => hh) (fun _ hh => hh) (fun _ _ hh => .inl hh) (fun _ _ hh => .inl hh)
    (fun k f hh => absurd hh (hr f k).2) (fun _ hh => .inl hh) (fun f hh => absurd hh (hr f 0).1)

theorem taskInv_shape {s s' : State} (h : TaskInv s) (hl : LocalInv s) (hp : PendSeq s) (hs : Shape s s') :
    TaskInv s' := by
  cases hs with
  | send _ hs => exact taskInv_send h hl hs
  | feedD f hd =>
    refine taskInv_mono h ?_ (fun _ hx => List.mem_append_left _ hx) (fun _ _ hh => .inl hh)
      (fun _ _ hh => .inl hh) ?_ (fun _ hh => .inl hh) ?_
    · intro k0 f0 hh; obtain ⟨a, b, c⟩ := hh; exact ⟨List.mem_append_left _ a, b, c⟩
    · intro k f' hh; simp at hh
    · intro f' hh; simp at hh; subst hh; exact .inr (by simp)
  | feedQ f hd =>
    refine taskInv_mono h ?_ (fun _ hx => List.mem_append_left _ hx) (fun _ _ hh => .inl hh)
      (fun _ _ hh => .inl hh) (fun _ _ hh => .inl hh) ?_ (fun _ hh => .inl hh)
    · intro k0 f0 hh; obtain ⟨a, b, c⟩ := hh; exact ⟨List.mem_append_left _ a, b, c⟩
    · intro f' hh
      have hh' : f' ∈ s.decodeQ ++ [f] := hh
      simp only [List.mem_append, List.mem_singleton] at hh'
      rcases hh' with hh' | rfl
      · exact .inl hh'
      · exact .inr (by simp)
  | setReader r hr => exact taskInv_setReader h r hr
  | close => exact h
  | decodeD f hd hr =>
    obtain ⟨h1, h2⟩ := taskInv_readFrame h hp (h.2.2 f hr)
    refine taskInv_mono h1 (fun _ _ hh => hh) (fun _ hh => hh) (fun _ _ hh => .inl hh) (fun _ _ hh => .inl hh)
      ?_ (fun _ hh => .inl hh) ?_
    · intro k f' hh
      have hh' : afterRead f (readFrame s f).2 = .finishing k f' := hh
      cases h3 : (readFrame s f).2 with
      | none => rw [h3] at hh'; simp [afterRead] at hh'
      | some k0 =>
        rw [h3] at hh'; simp [afterRead] at hh'
        obtain ⟨rfl, rfl⟩ := hh'
        exact .inr (h2 _ h3)
    · intro f' hh
      have hh' : afterRead f (readFrame s f).2 = .decoding f' := hh
      cases h3 : (readFrame s f).2 <;> rw [h3] at hh' <;> simp [afterRead] at hh'
  | decodeQ f rest hd hq =>
    have h0 : TaskInv { s with decodeQ := rest } :=
      taskInv_mono h (fun _ _ hh => hh) (fun _ hh => hh) (fun _ _ hh => .inl hh) (fun _ _ hh => .inl hh)
        (fun _ _ hh => .inl hh) (fun f' hh => .inl (by rw [hq]; exact List.mem_cons_of_mem _ hh)) (fun _ hh => .inl hh)
    exact (taskInv_readFrame (s := { s with decodeQ := rest }) h0 hp (h.2.1 f (by rw [hq]; simp))).1
  | finishR k f hr => exact taskInv_setReader (taskInv_finishCall h k f) .waiting (by simp)
  | finishQ k f rest hp' hq =>
    refine taskInv_finishCall ?_ k f
    exact taskInv_mono h (fun _ _ hh => hh) (fun _ hh => hh)
      (fun _ _ hh => .inl (by rw [hq]; exact List.mem_cons_of_mem _ hh)) (fun _ _ hh => .inl hh)
      (fun _ _ hh => .inl hh) (fun _ hh => .inl hh) (fun _ hh => .inl hh)
  | finishB k f hp' hm =>
    refine taskInv_finishCall ?_ k f
    exact taskInv_mono h (fun _ _ hh => hh) (fun _ hh => hh) (fun _ _ hh => .inl hh)
      (fun _ _ hh => .inl (List.mem_filter.1 hh).1)
      (fun _ _ hh => .inl hh) (fun _ hh => .inl hh) (fun _ hh => .inl hh)
  | runDone k rest hq =>
    refine taskInv_signal ?_ k
    exact taskInv_mono h (fun _ _ hh => hh) (fun _ hh => hh)
      (fun _ _ hh => .inl (by rw [hq]; exact List.mem_cons_of_mem _ hh)) (fun _ _ hh => .inl hh)
      (fun _ _ hh => .inl hh) (fun _ hh => .inl hh) (fun _ hh => .inl hh)
  | inert k g hg =>
    exact taskInv_eqs h (fun _ _ => frameOk_same (same_updCall (fun c => (hg c).2.2.1)) (fun _ hx => hx))
      rfl rfl rfl rfl rfl
  | sweep e hr => exact taskInv_setReader (taskInv_sweepAll (s := s) h e) .swept (by simp)

/-! ## the reader only ends with a non-text error -/

def ReaderErr (s : State) : Prop := ∀ e, s.reader = .ended e → noText e

theorem readerErr_init (cfg : Cfg) : ReaderErr (init cfg) := by
  intro e h; simp [init] at h

theorem send_reader {s s' : State} (hs : SendShape s s') : s'.reader = s.reader := by
  cases hs with
  | start => rfl
  | sentPlain => rw [popSend_eq]; rfl
  | sentFail k c e g => rw [popSend_eq]; exact (untouched_failCall s k e).reader
  | sentReg => rw [popSend_eq]; rfl
  | reg => rfl
  | setPhase => rfl

theorem readerErr_shape {s s' : State} (h : ReaderErr s) (hs : Shape s s') : ReaderErr s' := by
  cases hs with
  | send _ hs => intro e he; rw [send_reader hs] at he; exact h e he
  | feedD f hd => intro e he; simp at he
  | feedQ f hd => exact h
  | setReader r _ hr => exact hr
  | close => exact h
  | decodeD f hd hr =>
    intro e he
    have he' : afterRead f (readFrame s f).2 = .ended e := he
    cases h3 : (readFrame s f).2 <;> rw [h3] at he' <;> simp [afterRead] at he'
  | decodeQ f rest hd hq => intro e he; rw [readFrame_reader] at he; exact h e he
  | finishR k f hr => intro e he; simp at he
  | finishQ k f rest hp' hq => intro e he; rw [(untouched_finishCall _ k f).reader] at he; exact h e he
  | finishB k f hp' hm => intro e he; rw [(untouched_finishCall _ k f).reader] at he; exact h e he
  | runDone k rest hq => intro e he; rw [(untouched_signal _ k).reader] at he; exact h e he
  | inert k g hg => exact h
  | sweep e hr => intro e he; simp at he

/-! ## ProvInv -/

def ProvOk (fed : List Frame) (c : Call) : Prop :=
  (∀ src kd, c.replyFrom = some (src, kd) →
    ∃ q, c.seq = some q ∧ ({ seq := q, src := src, kind := kd, junk := false } : Frame) ∈ fed) ∧
  (∀ src n, Err.text src n ∈ c.errHist →
    ∃ q, c.seq = some q ∧ ({ seq := q, src := src, kind := .err n, junk := false } : Frame) ∈ fed)

theorem provInv_iff (s : State) : ProvInv s ↔ ∀ k c, s.calls k = some c → ProvOk s.fed c := Iff.rfl

theorem provInv_init (cfg : Cfg) : ProvInv (init cfg) := by
  intro k c h; simp [init] at h

def prov (c : Call) : Option Nat × Option (Nat × RespKind) × List Err := (c.seq, c.replyFrom, c.errHist)

theorem provOk_congr {fed fed' : List Frame} {c c' : Call} (h : ProvOk fed c) (he : prov c' = prov c)
    (hfed : ∀ x, x ∈ fed → x ∈ fed') : ProvOk fed' c' := by
  simp only [prov, Prod.mk.injEq] at he
  obtain ⟨e1, e2, e3⟩ := he
  unfold ProvOk
  rw [e1, e2, e3]
  refine ⟨fun src kd hh => ?_, fun src n hh => ?_⟩
  · obtain ⟨q, hq, hm⟩ := h.1 src kd hh; exact ⟨q, hq, hfed _ hm⟩
  · obtain ⟨q, hq, hm⟩ := h.2 src n hh; exact ⟨q, hq, hfed _ hm⟩

theorem provInv_same {s s' : State} (h : ProvInv s) (hc : Same prov s s') (hfed : ∀ x, x ∈ s.fed → x ∈ s'.fed) :
    ProvInv s' := by
  intro k c' hk'
  obtain ⟨c, hk, he⟩ := hc.get' hk'
  exact provOk_congr (h k c hk) he hfed

theorem provInv_updCall {s : State} (h : ProvInv s) (k : Nat) (g : Call → Call)
    (hk : ∀ c, s.calls k = some c → ProvOk s.fed c → ProvOk s.fed (g c)) : ProvInv (updCall s k g) := by
  intro j c' hc'
  rcases updCall_some hc' with ⟨_, h'⟩ | ⟨rfl, c, hc, rfl⟩
  · exact h j c' h'
  · exact hk c hc (h j c hc)

theorem provInv_setErr {s : State} (h : ProvInv s) (k : Nat) {e : Err} (he : noText e) : ProvInv (setErr s k e) := by
  refine provInv_updCall h k _ (fun c _ hok => ⟨hok.1, ?_⟩)
  intro src n hm
  simp only [List.mem_append, List.mem_singleton] at hm
  rcases hm with hm | hm
  · exact hok.2 src n hm
  · exact absurd hm.symm (he src n)

theorem provInv_complete {s : State} (h : ProvInv s) (k : Nat) : ProvInv (complete s k) :=
  provInv_same h (same_complete s k (fun _ => rfl)) (fun _ hx => (untouched_complete s k).fed ▸ hx)

theorem provInv_signal {s : State} (h : ProvInv s) (k : Nat) : ProvInv (signal s k) :=
  provInv_same h (same_signal s k (fun _ => rfl)) (fun _ hx => (untouched_signal s k).fed ▸ hx)

theorem provInv_failCall {s : State} (h : ProvInv s) (k : Nat) {e : Err} (he : noText e) :
    ProvInv (failCall s k e) :=
  provInv_complete (provInv_setErr h k he) k

theorem provInv_sweepAll {s : State} (h : ProvInv s) {e : Err} (he : noText e) : ProvInv (sweepAll s e) :=
  foldl_failCall_inv ProvInv e _ (fun _ p _ h => provInv_failCall h p.2 he) _ h

theorem frame_eta {f : Frame} {q : Nat} {kd : RespKind} (h1 : f.seq = q) (h2 : f.kind = kd) (h3 : f.junk = false) :
    ({ seq := q, src := f.src, kind := kd, junk := false } : Frame) = f := by
  cases f; simp_all

theorem provInv_finishCall {s : State} (h : ProvInv s) {k : Nat} {f : Frame} (hf : frameOk s k f) :
    ProvInv (finishCall s k f) := by
  rw [finishCall_eq]
  refine provInv_signal ?_ k
  refine provInv_updCall h k _ (fun c hc hok => ⟨?_, hok.2⟩)
  intro src kd hh
  simp only [Option.some.injEq, Prod.mk.injEq] at hh
  obtain ⟨rfl, rfl⟩ := hh
  obtain ⟨h1, h2, c0, hc0, hq⟩ := hf
  rw [hc] at hc0; cases hc0
  exact ⟨f.seq, hq, by rw [frame_eta rfl rfl h2]; exact h1⟩

theorem provInv_readFrame {s : State} (h : ProvInv s) (hp : PendSeq s) {f : Frame} (hf : f ∈ s.fed) :
    ProvInv (readFrame s f).1 := by
  rcases readFrame_cases s f with h' | h' | ⟨k', c, hl, hc, hj, h'⟩
  · rw [h']; exact h
  · rw [h']; exact h
  · have h0 : ProvInv { s with pending := erase s.pending f.seq } := h
    rcases h' with ⟨e, he, h'⟩ | ⟨_, h'⟩ | ⟨_, h'⟩ | ⟨_, _, h'⟩ | ⟨_, _, h'⟩ <;> rw [h']
    · rcases he with rfl | ⟨n, hkind, rfl⟩
      · exact provInv_failCall h0 k' noText_shutdown
      · refine provInv_complete (s := setErr { s with pending := erase s.pending f.seq } k' _) ?_ k'
        refine provInv_updCall h0 k' _ (fun c1 hc1 hok => ⟨hok.1, ?_⟩)
        intro src m hm
        simp only [List.mem_append, List.mem_singleton, Err.text.injEq] at hm
        rcases hm with hm | ⟨rfl, rfl⟩
        · exact hok.2 src m hm
        · obtain ⟨c0, hc0, hq⟩ := hp _ _ (lookup_mem hl)
          have : s.calls k' = some c1 := hc1
          rw [hc0] at this; cases this
          exact ⟨f.seq, hq, by rw [frame_eta rfl hkind hj]; exact hf⟩
    · exact provInv_signal h0 k'
    · exact h
    · exact h
    · exact h

theorem prov_phaseFn {ph : Phase} {g : Call → Call} (hg : PhaseFn ph g) (c : Call) : prov (g c) = prov c := by
  obtain ⟨_, _, h3, h4, h5⟩ := hg c
  simp [prov, h3, h4, h5]

theorem provInv_popUpd {s : State} (h : ProvInv s) (k : Nat) {ph : Phase} {g : Call → Call} (hg : PhaseFn ph g) :
    ProvInv (popSend (updCall s k g) k) := by
  rw [popSend_eq]
  exact provInv_updCall h k g (fun c _ hok => provOk_congr hok (prov_phaseFn hg c) (fun _ hx => hx))

theorem provInv_regd {s : State} (h : ProvInv s) (hl : LocalInv s) {k : Nat} {c : Call} (hc : s.calls k = some c)
    (hph : c.phase = .new) (w : List (Nat × Nat × UInt8)) : ProvInv (regd s k w) := by
  refine provInv_updCall (s := { s with seq := s.seq + 1, pending := s.pending ++ [(s.seq, k)], writes := w })
    h k _ (fun c1 hc1 hok => ?_)
  have : s.calls k = some c1 := hc1
  rw [hc] at this; cases this
  have hnone := (hl _ _ hc).1 hph
  refine ⟨fun src kd hh => ?_, fun src n hh => ?_⟩
  · obtain ⟨q, hq, _⟩ := hok.1 src kd hh; rw [hnone] at hq; cases hq
  · obtain ⟨q, hq, _⟩ := hok.2 src n hh; rw [hnone] at hq; cases hq

theorem provInv_send {s s' : State} (h : ProvInv s) (hl : LocalInv s) (hs : SendShape s s') : ProvInv s' := by
  cases hs with
  | start c hc hph hseq herr hrep =>
    intro j c' hj
    simp only [addCall] at hj
    split at hj
    · cases hj
      refine ⟨fun src kd hh => ?_, fun src n hh => ?_⟩
      · rw [hrep] at hh; cases hh
      · rw [herr] at hh; cases hh
    · exact h j c' hj
  | sentPlain k c g hc _ _ hg => exact provInv_popUpd h k hg
  | sentFail k c e g hc hcase hg =>
    refine provInv_popUpd (provInv_failCall h k ?_) k hg
    rcases hcase with ⟨_, _, rfl⟩ | hph
    · exact noText_shutdown
    · exact (hl _ _ hc).2.2 e (by simp [hph, phaseErr])
  | sentReg k c w g hc hph _ hg => exact provInv_popUpd (provInv_regd h hl hc hph w) k hg
  | reg k c w ph g hc hph _ hg _ =>
    exact provInv_updCall (provInv_regd h hl hc hph w) k g
      (fun c _ hok => provOk_congr hok (prov_phaseFn hg c) (fun _ hx => hx))
  | setPhase k c ph g pd hc _ _ _ _ hg _ hpd =>
    exact provInv_updCall (s := { s with pending := pd }) h k g
      (fun c _ hok => provOk_congr hok (prov_phaseFn hg c) (fun _ hx => hx))

theorem provInv_shape {s s' : State} (h : ProvInv s) (ht : TaskInv s) (hl : LocalInv s) (hp : PendSeq s)
    (hr : ReaderErr s) (hs : Shape s s') : ProvInv s' := by
  cases hs with
  | send _ hs => exact provInv_send h hl hs
  | feedD f hd => exact provInv_same (s := s) h (fun _ => rfl) (fun _ hx => List.mem_append_left _ hx)
  | feedQ f hd => exact provInv_same (s := s) h (fun _ => rfl) (fun _ hx => List.mem_append_left _ hx)
  | setReader r _ _ => exact h
  | close => exact h
  | decodeD f hd hrd => exact provInv_readFrame h hp (ht.2.2 f hrd)
  | decodeQ f rest hd hq =>
    exact provInv_readFrame (s := { s with decodeQ := rest }) h hp (ht.2.1 f (by rw [hq]; simp))
  | finishR k f hrd => exact provInv_finishCall h (ht.1 k f (.inr (.inr hrd)))
  | finishQ k f rest hp' hq =>
    exact provInv_finishCall (s := { s with finQ := rest }) h (ht.1 k f (.inl (by rw [hq]; simp)))
  | finishB k f hp' hm =>
    exact provInv_finishCall (s := { s with finBag := s.finBag.filter (notFin k) }) h (ht.1 k f (.inr (.inl hm)))
  | runDone k rest hq => exact provInv_signal (s := { s with finQ := rest }) h k
  | inert k g hg =>
    refine provInv_updCall h k g (fun c _ hok => provOk_congr hok ?_ (fun _ hx => hx))
    obtain ⟨_, _, h3, h4, h5⟩ := hg c
    simp [prov, h3, h4, h5]
  | sweep e hrd => exact provInv_sweepAll (s := s) h (hr e hrd)

/-! ## FifoInv -/

/-- FifoInv, plus: the completion queue only holds tasks of started calls -/
def FF (s : State) : Prop :=
  FifoInv s ∧ ∀ t, t ∈ s.finQ → (s.calls (taskId t)).isSome = true

theorem ff_init (cfg : Cfg) : FF (init cfg) := by
  constructor
  · intro _; simp [init]
  · intro t h; simp [init] at h

theorem ff_same {s s' : State} (h : FF s) (hc : Same Call.form s s') (h0 : s'.cfg = s.cfg)
    (h1 : s'.handed = s.handed) (h2 : s'.arrivals = s.arrivals) (h3 : s'.finQ = s.finQ) : FF s' := by
  constructor
  · intro hp
    have := h.1 (h0 ▸ hp)
    rw [h1, h2, h3, hc.isAsync]; exact this
  · intro t ht; rw [hc.isSome]; exact h.2 t (h3 ▸ ht)

theorem ff_nopipe {s s' : State} (h : FF s) (hp : s'.cfg.pipe = false) (hq : ∀ t, t ∈ s'.finQ → t ∈ s.finQ)
    (hd : ∀ j, (s.calls j).isSome = true → (s'.calls j).isSome = true) : FF s' := by
  constructor
  · intro hp'; rw [hp] at hp'; cases hp'
  · intro t ht; exact hd _ (h.2 t (hq t ht))

theorem filter_single (s : State) (k : Nat) : [k].filter (isAsync s) = hd s k := by
  unfold hd; cases h : isAsync s k <;> simp [h]

theorem ff_push {s : State} (h : FF s) {t : Task} (ht : (s.calls (taskId t)).isSome = true) :
    FF { s with handed := s.handed ++ hd s (taskId t), finQ := s.finQ ++ [t] } := by
  constructor
  · intro hp
    have := h.1 hp
    show s.handed ++ hd s (taskId t) = s.arrivals ++ ((s.finQ ++ [t]).map taskId).filter (isAsync s)
    rw [this, List.map_append, List.filter_append, List.append_assoc]
    simp [filter_single]
  · intro t' ht'
    have ht'' : t' ∈ s.finQ ++ [t] := ht'
    simp only [List.mem_append, List.mem_singleton] at ht''
    rcases ht'' with ht'' | rfl
    · exact h.2 t' ht''
    · exact ht

theorem ff_complete {s : State} (h : FF s) {k : Nat} (hk : (s.calls k).isSome = true) : FF (complete s k) := by
  cases hp : s.cfg.pipe
  · refine ff_nopipe h ((untouched_complete s k).cfg ▸ hp) ?_ ?_
    · intro t ht; rw [complete_finQ, hp] at ht; exact ht
    · intro j hj; rw [(same_complete (p := Call.form) s k (fun _ => rfl)).isSome]; exact hj
  · rw [complete_pipe hp]; exact ff_push (t := .done k) h hk

theorem ff_failCall {s : State} (h : FF s) {k : Nat} (hk : (s.calls k).isSome = true) (e : Err) :
    FF (failCall s k e) := by
  have hs := same_setErr (p := Call.form) s k e (fun _ => rfl)
  exact ff_complete (ff_same h hs rfl rfl rfl rfl) (by rw [hs.isSome]; exact hk)

/-- signalling the head of the completion queue -/
theorem ff_pop {s : State} (h : FF s) {t : Task} {rest : List Task} (hq : s.finQ = t :: rest) :
    FF (signal { s with finQ := rest } (taskId t)) := by
  have hs := same_signal (p := Call.form) { s with finQ := rest } (taskId t) (fun _ => rfl)
  have hu := untouched_signal { s with finQ := rest } (taskId t)
  constructor
  · intro hp
    have hp' : s.cfg.pipe = true := by rw [hu.cfg] at hp; exact hp
    have := h.1 hp'
    rw [hs.isAsync, signal_finQ]
    rw [signal_eq]
    show s.handed = (s.arrivals ++ hd s (taskId t)) ++ (rest.map taskId).filter (isAsync s)
    rw [this, hq, List.map_cons, ← List.singleton_append, List.filter_append, filter_single, List.append_assoc]
  · intro t' ht'
    rw [signal_finQ] at ht'
    rw [hs.isSome]
    exact h.2 t' (by rw [hq]; exact List.mem_cons_of_mem _ ht')

theorem hd_ping {s : State} {k : Nat} {c : Call} (hc : s.calls k = some c) (hf : c.form = .ping) : hd s k = [] := by
  simp [hd, isAsync, hc, hf, Form.async]

theorem ff_readFrame {s : State} (h : FF s) (f : Frame) : FF (readFrame s f).1 := by
  rcases readFrame_cases s f with h' | h' | ⟨k', c, hl, hc, hj, h'⟩
  · rw [h']; exact h
  · rw [h']; exact h
  · have h0 : FF { s with pending := erase s.pending f.seq } := h
    have hk : (s.calls k').isSome = true := by rw [hc]; rfl
    rcases h' with ⟨e, he, h'⟩ | ⟨hping, h'⟩ | ⟨_, h'⟩ | ⟨hp, _, h'⟩ | ⟨hp, _, h'⟩ <;> rw [h']
    · exact ff_failCall h0 hk e
    · have hs := same_signal (p := Call.form) { s with pending := erase s.pending f.seq } k' (fun _ => rfl)
      refine ff_same h0 hs (untouched_signal _ _).cfg ?_ ?_ (signal_finQ _ _)
      · rw [signal_eq]
      · rw [signal_eq]
        show s.arrivals ++ hd s k' = s.arrivals
        rw [hd_ping hc hping]; simp
    · exact ff_push (t := .fin k' f) h0 hk
    · exact ff_nopipe h hp (fun _ ht => ht) (fun _ hj => hj)
    · exact ff_nopipe h hp (fun _ ht => ht) (fun _ hj => hj)

private theorem mem_insertBySeq {x y : Nat × Nat} {l : List (Nat × Nat)} (h : y ∈ insertBySeq x l) : y = x ∨ y ∈ l := by
  induction l with
  | nil => simp [insertBySeq] at h; exact .inl h
  | cons z zs ih =>
    simp only [insertBySeq] at h
    split at h
    · simpa using h
    · simp only [List.mem_cons] at h ⊢
      rcases h with h | h
      · exact .inr (.inl h)
      · rcases ih h with h | h
        · exact .inl h
        · exact .inr (.inr h)

private theorem mem_sortBySeq {y : Nat × Nat} {l : List (Nat × Nat)} (h : y ∈ sortBySeq l) : y ∈ l := by
  induction l with
  | nil => simp [sortBySeq] at h
  | cons z zs ih =>
    simp only [sortBySeq, List.foldr_cons] at h
    rcases mem_insertBySeq h with h | h
    · simp [h]
    · exact List.mem_cons_of_mem _ (ih h)

theorem ff_sweepAll {s : State} (h : FF s) (hp : PendSeq s) (e : Err) : FF (sweepAll s e) := by
  have := foldl_failCall_inv (fun s' => FF s' ∧ Same Call.form s s') e (sortBySeq s.pending)
    (fun s' p hm hh => ?_) { s with shutdown := true, pending := [] } ⟨h, Same.refl s⟩
  · exact this.1
  · have hsome : (s'.calls p.2).isSome = true := by
      obtain ⟨c, hc, _⟩ := hp p.1 p.2 (mem_sortBySeq hm)
      rw [hh.2.isSome, hc]; rfl
    exact ⟨ff_failCall hh.1 hsome e, hh.2.trans (same_failCall s' p.2 e (fun _ => rfl) (fun _ => rfl))⟩

theorem ff_popUpd {s : State} (h : FF s) (k : Nat) {g : Call → Call} (hg : ∀ c, (g c).form = c.form) :
    FF (popSend (updCall s k g) k) := by
  rw [popSend_eq]
  exact ff_same h (same_updCall (s := s) (k := k) hg) rfl rfl rfl rfl

theorem ff_regd {s : State} (h : FF s) (k : Nat) (w : List (Nat × Nat × UInt8)) : FF (regd s k w) :=
  ff_same h (same_updCall (s := { s with seq := s.seq + 1, pending := s.pending ++ [(s.seq, k)], writes := w })
    (fun _ => rfl)) rfl rfl rfl rfl

theorem ff_send {s s' : State} (h : FF s) (hs : SendShape s s') : FF s' := by
  cases hs with
  | start c hc =>
    have hne : ∀ t, t ∈ s.finQ → taskId t ≠ c.k := by
      intro t ht he
      have := h.2 t ht
      rw [he, hc] at this; cases this
    constructor
    · intro hp
      have := h.1 hp
      show s.handed = s.arrivals ++ (s.finQ.map taskId).filter (isAsync (addCall s c))
      rw [this]
      congr 1
      apply List.filter_congr
      intro j hj
      obtain ⟨t, ht, rfl⟩ := List.mem_map.1 hj
      simp [isAsync, addCall, hne t ht]
    · intro t ht
      show (if taskId t = c.k then some c else s.calls (taskId t)).isSome = true
      rw [if_neg (hne t ht)]; exact h.2 t ht
  | sentPlain k c g hc _ _ hg => exact ff_popUpd h k (fun c => (hg c).2.1)
  | sentFail k c e g hc _ hg => exact ff_popUpd (ff_failCall h (by rw [hc]; rfl) e) k (fun c => (hg c).2.1)
  | sentReg k c w g hc _ _ hg => exact ff_popUpd (ff_regd h k w) k (fun c => (hg c).2.1)
  | reg k c w ph g hc _ _ hg _ =>
    exact ff_same (ff_regd h k w) (same_updCall (fun c => (hg c).2.1)) rfl rfl rfl rfl
  | setPhase k c ph g pd hc _ _ _ _ hg _ _ =>
    exact ff_same h (same_updCall (s := { s with pending := pd }) (fun c => (hg c).2.1)) rfl rfl rfl rfl

theorem ff_shape {s s' : State} (h : FF s) (hm : ModeInv s) (hp : PendSeq s) (hs : Shape s s') : FF s' := by
  cases hs with
  | send _ hs => exact ff_send h hs
  | feedD f hd => exact ff_same (s := s) h (fun _ => rfl) rfl rfl rfl rfl
  | feedQ f hd => exact ff_same (s := s) h (fun _ => rfl) rfl rfl rfl rfl
  | setReader r _ _ => exact ff_same (s := s) h (fun _ => rfl) rfl rfl rfl rfl
  | close => exact ff_same (s := s) h (fun _ => rfl) rfl rfl rfl rfl
  | decodeD f hd hrd => exact ff_same (ff_readFrame h f) (fun _ => rfl) rfl rfl rfl rfl
  | decodeQ f rest hd hq => exact ff_readFrame (s := { s with decodeQ := rest }) h f
  | finishR k f hrd =>
    have hpipe : s.cfg.pipe = false := by
      cases hpp : s.cfg.pipe
      · rfl
      · exact absurd hrd (hm.2.2.2.2 hpp f k)
    refine ff_nopipe h ?_ ?_ ?_
    · show (finishCall s k f).cfg.pipe = false
      rw [(untouched_finishCall s k f).cfg]; exact hpipe
    · intro t ht
      have ht' : t ∈ (finishCall s k f).finQ := ht
      rw [finishCall_finQ] at ht'; exact ht'
    · intro j hj
      show ((finishCall s k f).calls j).isSome = true
      rw [(same_finishCall (p := Call.form) s k f (fun _ => rfl) (fun _ => rfl)).isSome]; exact hj
  | finishQ k f rest hp' hq =>
    have h1 : FF (updCall s k fun c =>
        { c with replyFrom := some (f.src, f.kind), replyWrites := c.replyWrites + 1 }) :=
      ff_same h (same_updCall (fun _ => rfl)) rfl rfl rfl rfl
    exact ff_pop (t := .fin k f) h1 hq
  | finishB k f hp' hmem =>
    refine ff_nopipe h ?_ ?_ ?_
    · rw [(untouched_finishCall _ k f).cfg]; exact hp'
    · intro t ht
      rw [finishCall_finQ] at ht; exact ht
    · intro j hj
      rw [(same_finishCall (p := Call.form) _ k f (fun _ => rfl) (fun _ => rfl)).isSome]; exact hj
  | runDone k rest hq => exact ff_pop (t := .done k) h hq
  | inert k g hg => exact ff_same h (same_updCall (fun c => (hg c).2.1)) rfl rfl rfl rfl
  | sweep e hrd => exact ff_same (ff_sweepAll h hp e) (fun _ => rfl) rfl rfl rfl rfl

/-! ## the joint invariant and the stand-alone statements -/

/-- every id in the send queue belongs to a started call -/
def SendDom (s : State) : Prop := ∀ k, k ∈ s.sendQ → (s.calls k).isSome = true

/-- every task in the completion queue belongs to a started call -/
def FinDom (s : State) : Prop := ∀ t, t ∈ s.finQ → (s.calls (taskId t)).isSome = true

theorem sq_of {s : State} (h : SendQInv s) (hd : SendDom s) : SQ s :=
  fun hp => ⟨(h.1 hp).1, (h.1 hp).2.1, (h.1 hp).2.2, hd⟩

theorem sendDom_of {s : State} (h : SQ s) (hm : ModeInv s) : SendDom s := by
  intro k hk
  cases hp : s.cfg.pipe
  · rw [(hm.2.2.1 hp).2] at hk; cases hk
  · exact (h hp).2.2.2 k hk

/-- The five invariants together with the auxiliary facts their proofs need:
    per-call facts about phase/seq/errors (`LocalInv`), pending entries point to their call
    (`PendSeq`), the reader ends with a non-text error only (`ReaderErr`), and the send and
    completion queues only hold started calls. -/
def AuxInv (s : State) : Prop :=
  ModeInv s ∧ SendQInv s ∧ TaskInv s ∧ ProvInv s ∧ FifoInv s ∧
  LocalInv s ∧ PendSeq s ∧ ReaderErr s ∧ SendDom s ∧ FinDom s

theorem sendQInv_init (cfg : Cfg) : SendQInv (init cfg) := sendQInv_of (sq_init cfg) (localInv_init cfg)

theorem fifoInv_init (cfg : Cfg) : FifoInv (init cfg) := (ff_init cfg).1

theorem auxInv_init (cfg : Cfg) : AuxInv (init cfg) :=
  ⟨modeInv_init cfg, sendQInv_init cfg, taskInv_init cfg, provInv_init cfg, fifoInv_init cfg,
   localInv_init cfg, pendSeq_init cfg, readerErr_init cfg, sendDom_of (sq_init cfg) (modeInv_init cfg),
   (ff_init cfg).2⟩

theorem sendQInv_step {s s' : State} {e : Ev} (h : SendQInv s) (hd : SendDom s) (hl : LocalInv s)
    (hs : step s e = some s') : SendQInv s' :=
  sendQInv_of (sq_shape (sq_of h hd) (step_shape hs)) (localInv_shape hl (step_shape hs))

theorem taskInv_step {s s' : State} {e : Ev} (h : TaskInv s) (hl : LocalInv s) (hp : PendSeq s)
    (hs : step s e = some s') : TaskInv s' :=
  taskInv_shape h hl hp (step_shape hs)

theorem provInv_step {s s' : State} {e : Ev} (h : ProvInv s) (ht : TaskInv s) (hl : LocalInv s) (hp : PendSeq s)
    (hr : ReaderErr s) (hs : step s e = some s') : ProvInv s' :=
  provInv_shape h ht hl hp hr (step_shape hs)

theorem fifoInv_step {s s' : State} {e : Ev} (h : FifoInv s) (hd : FinDom s) (hm : ModeInv s) (hp : PendSeq s)
    (hs : step s e = some s') : FifoInv s' :=
  (ff_shape ⟨h, hd⟩ hm hp (step_shape hs)).1

theorem auxInv_step {s s' : State} {e : Ev} (h : AuxInv s) (hs : step s e = some s') : AuxInv s' := by
  obtain ⟨hm, hq, ht, hpv, hf, hl, hp, hr, hsd, hfd⟩ := h
  have hsh := step_shape hs
  have hsq := sq_shape (sq_of hq hsd) hsh
  have hm' := modeInv_shape hm hsh
  have hl' := localInv_shape hl hsh
  have hff := ff_shape ⟨hf, hfd⟩ hm hp hsh
  exact ⟨hm', sendQInv_of hsq hl', taskInv_shape ht hl hp hsh, provInv_shape hpv ht hl hp hr hsh, hff.1,
    hl', pendSeq_shape hp hl hsh, readerErr_shape hr hsh, sendDom_of hsq hm', hff.2⟩

theorem auxInv_accepts' {s : State} {tr : List Ev} {s' : State} (h0 : AuxInv s) (h : Accepts s tr s') : AuxInv s' := by
  induction h with
  | nil => exact h0
  | cons hs _ ih => exact ih (auxInv_step h0 hs)

theorem auxInv_accepts {cfg : Cfg} {tr : List Ev} {s : State} (h : Accepts (init cfg) tr s) : AuxInv s :=
  auxInv_accepts' (auxInv_init cfg) h

theorem modeInv_accepts {cfg : Cfg} {tr : List Ev} {s : State} (h : Accepts (init cfg) tr s) : ModeInv s :=
  (auxInv_accepts h).1

theorem sendQInv_accepts {cfg : Cfg} {tr : List Ev} {s : State} (h : Accepts (init cfg) tr s) : SendQInv s :=
  (auxInv_accepts h).2.1

theorem taskInv_accepts {cfg : Cfg} {tr : List Ev} {s : State} (h : Accepts (init cfg) tr s) : TaskInv s :=
  (auxInv_accepts h).2.2.1

theorem provInv_accepts {cfg : Cfg} {tr : List Ev} {s : State} (h : Accepts (init cfg) tr s) : ProvInv s :=
  (auxInv_accepts h).2.2.2.1

theorem fifoInv_accepts {cfg : Cfg} {tr : List Ev} {s : State} (h : Accepts (init cfg) tr s) : FifoInv s :=
  (auxInv_accepts h).2.2.2.2.1

end RpcVerif.K
