import RpcVerif.Model.Wire
import RpcVerif.Lemmas.Varint
namespace RpcVerif.Wire
open RpcVerif

/-- `w` has written exactly `out` so far. -/
def Good (w : W) (out : Bytes) : Prop := w.done = out ∧ w.off = out.length ∧ w.off ≤ w.buf.length

theorem good_init (buf : Bytes) : Good ⟨buf, 0⟩ [] := by simp [Good, W.done]

theorem take_put (buf bs : Bytes) (o : Nat) (h : o + bs.length ≤ buf.length) :
    (buf.take o ++ bs ++ buf.drop (o + bs.length)).take (o + bs.length) = buf.take o ++ bs := by
  have h1 : (buf.take o ++ bs).length = o + bs.length := by simp; omega
  rw [List.take_append_of_le_length (by omega)]
  rw [← h1, List.take_length]

theorem put_good {w : W} {out : Bytes} (bs : Bytes) (hg : Good w out)
    (hfit : out.length + bs.length ≤ w.buf.length) :
    ∃ w', w.put bs = .ok w' ∧ Good w' (out ++ bs) ∧ w'.buf.length = w.buf.length := by
  obtain ⟨hd, ho, hl⟩ := hg
  have hfit' : w.off + bs.length ≤ w.buf.length := by omega
  refine ⟨{ buf := w.buf.take w.off ++ bs ++ w.buf.drop (w.off + bs.length), off := w.off + bs.length }, ?_, ?_, ?_⟩
  · simp [W.put, hfit']
  · simp only [Good, W.done] at hd ⊢
    refine ⟨?_, ?_, ?_⟩
    · rw [take_put _ _ _ hfit', hd]
    · simp [ho]
    · simp; omega
  · simp; omega

theorem putIf_good {w : W} {out : Bytes} (c : Bool) (bs : Bytes) (hg : Good w out)
    (hfit : out.length + bs.length ≤ w.buf.length) :
    ∃ w', w.putIf c bs = .ok w' ∧ Good w' (out ++ (if c then bs else [])) ∧ w'.buf.length = w.buf.length := by
  cases c with
  | false => exact ⟨w, by simp [W.putIf], by simpa using hg, rfl⟩
  | true => simpa [W.putIf] using put_good bs hg hfit

theorem withSize_length (scratch : Bytes) (size : Nat) : (withSize scratch size).length = size := by
  unfold withSize; split <;> simp <;> omega

theorem lenPrefixed_length (bs : Bytes) : (lenPrefixed bs).length ≤ 10 + bs.length := by
  have := sizeofVarint_le bs.length
  simp [lenPrefixed, encodeVarint_length]; omega

end RpcVerif.Wire

namespace RpcVerif.Wire
open RpcVerif

/-- A request/response whose numbers fit the Go types. -/
def Request.WF (r : Request) : Prop :=
  r.seq < 2^64 ∧ r.upgrade.length < 2^63 ∧ r.method.length < 2^63 ∧ r.args.length < 2^63
def Response.WF (r : Response) : Prop :=
  r.seq < 2^64 ∧ r.error.length < 2^63 ∧ r.reply.length < 2^63

theorem lenPrefixed_eq (bs : Bytes) (h : bs.length < 2^63) : lenPrefixed bs = putVarint bs.length ++ bs := by
  unfold lenPrefixed; rw [encodeVarint_eq_put _ (by omega)]

/-- The source-derived constants are the documented ones. Everything below rests on this;
    if the Go source changes a tag, a case number, a threshold or a size overhead, this is the
    obligation that stops checking. -/
theorem pb_facts :
    Gen.pbReqTag_Seq = 1*8+0 ∧ Gen.pbReqTag_Upgrade = 2*8+2 ∧ Gen.pbReqTag_ServiceMethod = 3*8+2 ∧ Gen.pbReqTag_Args = 4*8+2 ∧
    Gen.pbResTag_Seq = 1*8+0 ∧ Gen.pbResTag_Error = 2*8+2 ∧ Gen.pbResTag_Reply = 3*8+2 ∧
    Gen.pbReqCase_Seq = (1,0) ∧ Gen.pbReqCase_Upgrade = (2,2) ∧ Gen.pbReqCase_ServiceMethod = (3,2) ∧ Gen.pbReqCase_Args = (4,2) ∧
    Gen.pbResCase_Seq = (1,0) ∧ Gen.pbResCase_Error = (2,2) ∧ Gen.pbResCase_Reply = (3,2) := by decide

theorem pb_size_facts :
    11 ≤ Gen.pbReqSizeBase ∧ 11 ≤ Gen.pbReqSizePerField.getD 0 0 ∧ 11 ≤ Gen.pbReqSizePerField.getD 1 0 ∧ 11 ≤ Gen.pbReqSizePerField.getD 2 0 ∧
    11 ≤ Gen.pbResSizeBase ∧ 11 ≤ Gen.pbResSizePerField.getD 0 0 ∧ 11 ≤ Gen.pbResSizePerField.getD 1 0 := by decide

theorem code_facts :
    Gen.codeReqEnc_Upgrade = (127,0) ∧ Gen.codeReqEnc_ServiceMethod = (127,0) ∧ Gen.codeReqEnc_Args = (127,0) ∧
    Gen.codeResEnc_Error = (127,0) ∧ Gen.codeResEnc_Reply = (127,0) ∧
    Gen.codeReqDec_Upgrade = (127,0) ∧ Gen.codeReqDec_ServiceMethod = 0 ∧ Gen.codeReqDec_Args = (127,0) ∧
    Gen.codeResDec_Error = 0 ∧ Gen.codeResDec_Reply = (127,0) := by decide

theorem code_size_facts :
    10 ≤ Gen.codeReqSizeBase ∧ 10 ≤ Gen.codeReqSizePerField.getD 0 0 ∧ 10 ≤ Gen.codeReqSizePerField.getD 1 0 ∧ 10 ≤ Gen.codeReqSizePerField.getD 2 0 ∧
    10 ≤ Gen.codeResSizeBase ∧ 10 ≤ Gen.codeResSizePerField.getD 0 0 ∧ 10 ≤ Gen.codeResSizePerField.getD 1 0 := by decide

theorem pbVarintField_eq (tag : Nat) (field : Nat) (v : Nat) (hv : v < 2^64) (ht : tag = field*8+0) :
    (if (v != 0) = true then UInt8.ofNat tag :: encodeVarint v else []) = pbVarintField field v := by
  subst ht
  unfold pbVarintField pbTag
  by_cases h : v = 0
  · simp [h]
  · simp [h, encodeVarint_eq_put v hv]

theorem pbBytesField_eq (tag : Nat) (field : Nat) (bs : Bytes) (hv : bs.length < 2^63) (ht : tag = field*8+2) :
    (if decide (bs.length > 0) = true then UInt8.ofNat tag :: lenPrefixed bs else []) = pbBytesField field bs := by
  subst ht
  unfold pbBytesField pbTag
  by_cases h : bs.length = 0
  · simp [h]
  · have : bs.length > 0 := by omega
    simp [h, this, lenPrefixed_eq bs hv]

theorem encodeVarint_len_le (v : Nat) : (encodeVarint v).length ≤ 10 := by
  rw [encodeVarint_length]; exact (sizeofVarint_le v).2

/-- **format / scratch-irrelevance / within-size** for the pb request header:
    for every scratch buffer (any capacity, any contents) the encoder returns exactly the
    documented protobuf bytes, without ever indexing outside the `Size()` it reserved. -/
theorem pbReqMarshal_eq_spec (scratch : Bytes) (r : Request) (h : r.WF) :
    pbReqMarshal scratch r = .ok (pbReqSpec r) := by
  obtain ⟨hs, hu, hm, ha⟩ := h
  obtain ⟨t1, t2, t3, t4, -, -, -, -⟩ := pb_facts
  obtain ⟨b0, b1, b2, b3, -, -, -⟩ := pb_size_facts
  unfold pbReqMarshal pbReqMarshalTo
  have hlen := withSize_length scratch (pbReqSize r)
  simp only [hlen, ge_iff_le, Nat.le_refl, if_true]
  rw [List.take_of_length_le (by omega)]
  generalize hbuf : withSize scratch (pbReqSize r) = buf at hlen
  have hsz : pbReqSize r = Gen.pbReqSizeBase + (Gen.pbReqSizePerField.getD 0 0 + r.upgrade.length)
    + (Gen.pbReqSizePerField.getD 1 0 + r.method.length) + (Gen.pbReqSizePerField.getD 2 0 + r.args.length) := rfl
  have e1 := encodeVarint_len_le r.seq
  have l2 := lenPrefixed_length r.upgrade
  have l3 := lenPrefixed_length r.method
  have l4 := lenPrefixed_length r.args
  obtain ⟨w1, h1, g1, n1⟩ := putIf_good (r.seq != 0) (UInt8.ofNat Gen.pbReqTag_Seq :: encodeVarint r.seq) (good_init buf)
    (by simp; omega)
  have q1 : (([] : Bytes) ++ if (r.seq != 0) = true then UInt8.ofNat Gen.pbReqTag_Seq :: encodeVarint r.seq else []).length ≤ 11 := by
    split <;> simp <;> omega
  obtain ⟨w2, h2, g2, n2⟩ := putIf_good (decide (r.upgrade.length > 0)) (UInt8.ofNat Gen.pbReqTag_Upgrade :: lenPrefixed r.upgrade) g1
    (by simp only [List.length_cons] at *; omega)
  have q2 : (if decide (r.upgrade.length > 0) = true then UInt8.ofNat Gen.pbReqTag_Upgrade :: lenPrefixed r.upgrade else []).length ≤ 11 + r.upgrade.length := by
    split <;> simp <;> omega
  obtain ⟨w3, h3, g3, n3⟩ := putIf_good (decide (r.method.length > 0)) (UInt8.ofNat Gen.pbReqTag_ServiceMethod :: lenPrefixed r.method) g2
    (by simp only [List.length_cons, List.length_append] at *; omega)
  have q3 : (if decide (r.method.length > 0) = true then UInt8.ofNat Gen.pbReqTag_ServiceMethod :: lenPrefixed r.method else []).length ≤ 11 + r.method.length := by
    split <;> simp <;> omega
  obtain ⟨w4, h4, g4, n4⟩ := putIf_good (decide (r.args.length > 0)) (UInt8.ofNat Gen.pbReqTag_Args :: lenPrefixed r.args) g3
    (by simp only [List.length_cons, List.length_append] at *; omega)
  simp only [bind, Res.bind, h1, h2, h3, h4, pure]
  rw [g4.1, pbVarintField_eq _ 1 _ hs t1, pbBytesField_eq _ 2 _ hu t2, pbBytesField_eq _ 3 _ hm t3, pbBytesField_eq _ 4 _ ha t4]
  simp [pbReqSpec]

end RpcVerif.Wire

namespace RpcVerif.Wire
open RpcVerif

theorem pbResMarshal_eq_spec (scratch : Bytes) (r : Response) (h : r.WF) :
    pbResMarshal scratch r = .ok (pbResSpec r) := by
  obtain ⟨hs, he, hr⟩ := h
  obtain ⟨-, -, -, -, t1, t2, t3, -⟩ := pb_facts
  obtain ⟨-, -, -, -, b0, b1, b2⟩ := pb_size_facts
  unfold pbResMarshal pbResMarshalTo
  have hlen := withSize_length scratch (pbResSize r)
  simp only [hlen, ge_iff_le, Nat.le_refl, if_true]
  rw [List.take_of_length_le (by omega)]
  generalize hbuf : withSize scratch (pbResSize r) = buf at hlen
  have hsz : pbResSize r = Gen.pbResSizeBase + (Gen.pbResSizePerField.getD 0 0 + r.error.length)
    + (Gen.pbResSizePerField.getD 1 0 + r.reply.length) := rfl
  have e1 := encodeVarint_len_le r.seq
  have l2 := lenPrefixed_length r.error
  have l3 := lenPrefixed_length r.reply
  obtain ⟨w1, h1, g1, n1⟩ := putIf_good (r.seq != 0) (UInt8.ofNat Gen.pbResTag_Seq :: encodeVarint r.seq) (good_init buf)
    (by simp; omega)
  have q1 : (([] : Bytes) ++ if (r.seq != 0) = true then UInt8.ofNat Gen.pbResTag_Seq :: encodeVarint r.seq else []).length ≤ 11 := by
    split <;> simp <;> omega
  obtain ⟨w2, h2, g2, n2⟩ := putIf_good (decide (r.error.length > 0)) (UInt8.ofNat Gen.pbResTag_Error :: lenPrefixed r.error) g1
    (by simp only [List.length_cons] at *; omega)
  have q2 : (if decide (r.error.length > 0) = true then UInt8.ofNat Gen.pbResTag_Error :: lenPrefixed r.error else []).length ≤ 11 + r.error.length := by
    split <;> simp <;> omega
  obtain ⟨w3, h3, g3, n3⟩ := putIf_good (decide (r.reply.length > 0)) (UInt8.ofNat Gen.pbResTag_Reply :: lenPrefixed r.reply) g2
    (by simp only [List.length_cons, List.length_append] at *; omega)
  simp only [bind, Res.bind, h1, h2, h3, pure]
  rw [g3.1, pbVarintField_eq _ 1 _ hs t1, pbBytesField_eq _ 2 _ he t2, pbBytesField_eq _ 3 _ hr t3]
  simp [pbResSpec]

theorem putVarint_small (n : Nat) (h : n < 128) : putVarint n = [UInt8.ofNat n] := by
  unfold putVarint; simp [h]

/-- The three-way code field encoder spells `varint(len) ++ bytes` in every branch. -/
theorem codeFieldBytes_eq (bs : Bytes) (h : bs.length < 2^63) :
    codeFieldBytes (127, 0) bs = putVarint bs.length ++ bs := by
  unfold codeFieldBytes
  by_cases h1 : bs.length > 127
  · simp [h1, lenPrefixed_eq bs h]
  · by_cases h2 : bs.length > 0
    · simp [h1, h2, putVarint_small bs.length (by omega)]
    · have : bs = [] := by cases bs <;> simp_all
      subst this; simp [putVarint_small 0 (by omega)]

theorem codeFieldBytes_length (bs : Bytes) : (codeFieldBytes (127, 0) bs).length ≤ 10 + bs.length := by
  unfold codeFieldBytes
  have := lenPrefixed_length bs
  split
  · omega
  · split <;> simp <;> omega

theorem codeReqMarshal_eq_spec (scratch : Bytes) (r : Request) (h : r.WF) :
    codeReqMarshal scratch r = .ok (codeReqSpec r) := by
  obtain ⟨hs, hu, hm, ha⟩ := h
  obtain ⟨t1, t2, t3, -, -, -⟩ := code_facts
  obtain ⟨b0, b1, b2, b3, -, -, -⟩ := code_size_facts
  unfold codeReqMarshal
  have hlen := withSize_length scratch (codeReqSize r)
  generalize hbuf : withSize scratch (codeReqSize r) = buf at hlen
  have hsz : codeReqSize r = Gen.codeReqSizeBase + (Gen.codeReqSizePerField.getD 0 0 + r.upgrade.length)
    + (Gen.codeReqSizePerField.getD 1 0 + r.method.length) + (Gen.codeReqSizePerField.getD 2 0 + r.args.length) := rfl
  rw [t1, t2, t3]
  have e1 := encodeVarint_len_le r.seq
  have l2 := codeFieldBytes_length r.upgrade
  have l3 := codeFieldBytes_length r.method
  have l4 := codeFieldBytes_length r.args
  obtain ⟨w1, h1, g1, n1⟩ := put_good (encodeVarint r.seq) (good_init buf) (by simp; omega)
  obtain ⟨w2, h2, g2, n2⟩ := put_good (codeFieldBytes (127,0) r.upgrade) g1 (by simp only [List.length_append, List.length_nil] at *; omega)
  obtain ⟨w3, h3, g3, n3⟩ := put_good (codeFieldBytes (127,0) r.method) g2 (by simp only [List.length_append, List.length_nil] at *; omega)
  obtain ⟨w4, h4, g4, n4⟩ := put_good (codeFieldBytes (127,0) r.args) g3 (by simp only [List.length_append, List.length_nil] at *; omega)
  simp only [bind, Res.bind, h1, h2, h3, h4, pure]
  rw [g4.1, encodeVarint_eq_put _ hs, codeFieldBytes_eq _ hu, codeFieldBytes_eq _ hm, codeFieldBytes_eq _ ha]
  simp [codeReqSpec]

theorem codeResMarshal_eq_spec (scratch : Bytes) (r : Response) (h : r.WF) :
    codeResMarshal scratch r = .ok (codeResSpec r) := by
  obtain ⟨hs, he, hr⟩ := h
  obtain ⟨-, -, -, t1, t2, -⟩ := code_facts
  obtain ⟨-, -, -, -, b0, b1, b2⟩ := code_size_facts
  unfold codeResMarshal
  have hlen := withSize_length scratch (codeResSize r)
  generalize hbuf : withSize scratch (codeResSize r) = buf at hlen
  have hsz : codeResSize r = Gen.codeResSizeBase + (Gen.codeResSizePerField.getD 0 0 + r.error.length)
    + (Gen.codeResSizePerField.getD 1 0 + r.reply.length) := rfl
  rw [t1, t2]
  have e1 := encodeVarint_len_le r.seq
  have l2 := codeFieldBytes_length r.error
  have l3 := codeFieldBytes_length r.reply
  obtain ⟨w1, h1, g1, n1⟩ := put_good (encodeVarint r.seq) (good_init buf) (by simp; omega)
  obtain ⟨w2, h2, g2, n2⟩ := put_good (codeFieldBytes (127,0) r.error) g1 (by simp only [List.length_append, List.length_nil] at *; omega)
  obtain ⟨w3, h3, g3, n3⟩ := put_good (codeFieldBytes (127,0) r.reply) g2 (by simp only [List.length_append, List.length_nil] at *; omega)
  simp only [bind, Res.bind, h1, h2, h3, pure]
  rw [g3.1, encodeVarint_eq_put _ hs, codeFieldBytes_eq _ he, codeFieldBytes_eq _ hr]
  simp [codeResSpec]

end RpcVerif.Wire

namespace RpcVerif.Wire
open RpcVerif

theorem decodeBytes_put (bs rest extra : Bytes) (h : bs.length < 2^63) :
    decodeBytes (putVarint bs.length ++ bs ++ rest) extra
      = .ok (bs, (putVarint bs.length).length + bs.length) := by
  unfold decodeBytes
  rw [List.append_assoc, getVarint_put _ (by omega)]
  simp only [List.length_append]
  rw [if_pos (by omega)]
  simp [List.append_assoc]

theorem pbTag_div (f wt : Nat) (hf : f < 32) (hw : wt < 8) :
    (pbTag f wt).toNat / 8 = f ∧ (pbTag f wt).toNat % 8 = wt := by
  unfold pbTag
  rw [toNat_ofNat_lt _ (by omega)]
  omega

theorem pbReqLoop_seq (extra rest : Bytes) (off : Nat) (acc : Request) (v : Nat) (hv : v < 2^64) :
    pbReqLoop extra (pbVarintField 1 v ++ rest) off acc
      = pbReqLoop extra rest (off + (pbVarintField 1 v).length) (if v = 0 then acc else { acc with seq := v }) := by
  obtain ⟨-, -, -, -, -, -, -, c1, -⟩ := pb_facts
  unfold pbVarintField
  by_cases h0 : v = 0
  · simp [h0]
  · simp only [h0, if_false, List.cons_append]
    rw [pbReqLoop]
    obtain ⟨hd, hm⟩ := pbTag_div 1 0 (by omega) (by omega)
    simp only [hd, hm, c1, if_true, ne_eq, not_true_eq_false, if_false, getVarint_put v hv]
    simp [Nat.add_assoc, Nat.add_comm 1]

theorem pbReqLoop_upgrade (extra rest : Bytes) (off : Nat) (acc : Request) (bs : Bytes) (hv : bs.length < 2^63) :
    pbReqLoop extra (pbBytesField 2 bs ++ rest) off acc
      = pbReqLoop extra rest (off + (pbBytesField 2 bs).length) (if bs.length = 0 then acc else { acc with upgrade := bs }) := by
  obtain ⟨-, -, -, -, -, -, -, c1, c2, -⟩ := pb_facts
  unfold pbBytesField
  by_cases h0 : bs.length = 0
  · simp [h0]
  · simp only [h0, if_false, List.cons_append]
    rw [pbReqLoop]
    obtain ⟨hd, hm⟩ := pbTag_div 2 2 (by omega) (by omega)
    simp only [hd, hm, c1, c2, ne_eq, not_true_eq_false, if_false, if_true, decodeBytes_put bs rest extra hv]
    simp [Nat.add_assoc, Nat.add_comm 1]

theorem pbReqLoop_method (extra rest : Bytes) (off : Nat) (acc : Request) (bs : Bytes) (hv : bs.length < 2^63) :
    pbReqLoop extra (pbBytesField 3 bs ++ rest) off acc
      = pbReqLoop extra rest (off + (pbBytesField 3 bs).length) (if bs.length = 0 then acc else { acc with method := bs }) := by
  obtain ⟨-, -, -, -, -, -, -, c1, c2, c3, -⟩ := pb_facts
  unfold pbBytesField
  by_cases h0 : bs.length = 0
  · simp [h0]
  · simp only [h0, if_false, List.cons_append]
    rw [pbReqLoop]
    obtain ⟨hd, hm⟩ := pbTag_div 3 2 (by omega) (by omega)
    simp only [hd, hm, c1, c2, c3, ne_eq, not_true_eq_false, if_false, if_true, decodeBytes_put bs rest extra hv]
    simp [Nat.add_assoc, Nat.add_comm 1]

theorem pbReqLoop_args (extra rest : Bytes) (off : Nat) (acc : Request) (bs : Bytes) (hv : bs.length < 2^63) :
    pbReqLoop extra (pbBytesField 4 bs ++ rest) off acc
      = pbReqLoop extra rest (off + (pbBytesField 4 bs).length) (if bs.length = 0 then acc else { acc with args := bs }) := by
  obtain ⟨-, -, -, -, -, -, -, c1, c2, c3, c4, -⟩ := pb_facts
  unfold pbBytesField
  by_cases h0 : bs.length = 0
  · simp [h0]
  · simp only [h0, if_false, List.cons_append]
    rw [pbReqLoop]
    obtain ⟨hd, hm⟩ := pbTag_div 4 2 (by omega) (by omega)
    simp only [hd, hm, c1, c2, c3, c4, ne_eq, not_true_eq_false, if_false, if_true, decodeBytes_put bs rest extra hv]
    simp [Nat.add_assoc, Nat.add_comm 1]

theorem pbReqLoop_spec (extra : Bytes) (r : Request) (h : r.WF) :
    pbReqLoop extra (pbReqSpec r) 0 {} = .ok (r, (pbReqSpec r).length) := by
  obtain ⟨hs, hu, hm, ha⟩ := h
  unfold pbReqSpec
  rw [List.append_assoc, List.append_assoc, pbReqLoop_seq _ _ _ _ _ hs, pbReqLoop_upgrade _ _ _ _ _ hu,
    pbReqLoop_method _ _ _ _ _ hm]
  have := pbReqLoop_args extra [] (0 + (pbVarintField 1 r.seq).length + (pbBytesField 2 r.upgrade).length +
      (pbBytesField 3 r.method).length) (if r.method.length = 0 then (if r.upgrade.length = 0 then (if r.seq = 0 then ({} : Request) else { ({} : Request) with seq := r.seq }) else { (if r.seq = 0 then ({} : Request) else { ({} : Request) with seq := r.seq }) with upgrade := r.upgrade }) else { (if r.upgrade.length = 0 then (if r.seq = 0 then ({} : Request) else { ({} : Request) with seq := r.seq }) else { (if r.seq = 0 then ({} : Request) else { ({} : Request) with seq := r.seq }) with upgrade := r.upgrade }) with method := r.method }) r.args ha
  simp only [List.append_nil] at this
  rw [this, pbReqLoop]
  congr 1
  cases r with
  | mk seq upgrade method args =>
    simp only [Prod.mk.injEq, List.length_append]
    refine ⟨?_, by omega⟩
    by_cases h1 : seq = 0 <;> by_cases h2 : upgrade.length = 0 <;> by_cases h3 : method.length = 0 <;> by_cases h4 : args.length = 0 <;>
      simp_all [List.length_eq_zero_iff]

/-- **round-trip**, pb request: decoding the documented bytes returns the fields, whatever lies
    behind the frame in the read buffer and whether or not the hardening is present. -/
theorem pbReq_roundtrip (extra : Bytes) (r : Request) (h : r.WF) :
    pbReqUnmarshal (pbReqSpec r) extra = .ok r := by
  unfold pbReqUnmarshal
  rw [pbReqLoop_spec extra r h]
  simp [harden]

end RpcVerif.Wire

namespace RpcVerif.Wire
open RpcVerif

theorem pbResLoop_seq (extra rest : Bytes) (off : Nat) (acc : Response) (v : Nat) (hv : v < 2^64) :
    pbResLoop extra (pbVarintField 1 v ++ rest) off acc
      = pbResLoop extra rest (off + (pbVarintField 1 v).length) (if v = 0 then acc else { acc with seq := v }) := by
  obtain ⟨-, -, -, -, -, -, -, -, -, -, -, c1, -⟩ := pb_facts
  unfold pbVarintField
  by_cases h0 : v = 0
  · simp [h0]
  · simp only [h0, if_false, List.cons_append]
    rw [pbResLoop]
    obtain ⟨hd, hm⟩ := pbTag_div 1 0 (by omega) (by omega)
    simp only [hd, hm, c1, if_true, ne_eq, not_true_eq_false, if_false, getVarint_put v hv]
    simp [Nat.add_assoc, Nat.add_comm 1]

theorem pbResLoop_error (extra rest : Bytes) (off : Nat) (acc : Response) (bs : Bytes) (hv : bs.length < 2^63) :
    pbResLoop extra (pbBytesField 2 bs ++ rest) off acc
      = pbResLoop extra rest (off + (pbBytesField 2 bs).length) (if bs.length = 0 then acc else { acc with error := bs }) := by
  obtain ⟨-, -, -, -, -, -, -, -, -, -, -, c1, c2, -⟩ := pb_facts
  unfold pbBytesField
  by_cases h0 : bs.length = 0
  · simp [h0]
  · simp only [h0, if_false, List.cons_append]
    rw [pbResLoop]
    obtain ⟨hd, hm⟩ := pbTag_div 2 2 (by omega) (by omega)
    simp only [hd, hm, c1, c2, ne_eq, not_true_eq_false, if_false, if_true, decodeBytes_put bs rest extra hv]
    simp [Nat.add_assoc, Nat.add_comm 1]

theorem pbResLoop_reply (extra rest : Bytes) (off : Nat) (acc : Response) (bs : Bytes) (hv : bs.length < 2^63) :
    pbResLoop extra (pbBytesField 3 bs ++ rest) off acc
      = pbResLoop extra rest (off + (pbBytesField 3 bs).length) (if bs.length = 0 then acc else { acc with reply := bs }) := by
  obtain ⟨-, -, -, -, -, -, -, -, -, -, -, c1, c2, c3⟩ := pb_facts
  unfold pbBytesField
  by_cases h0 : bs.length = 0
  · simp [h0]
  · simp only [h0, if_false, List.cons_append]
    rw [pbResLoop]
    obtain ⟨hd, hm⟩ := pbTag_div 3 2 (by omega) (by omega)
    simp only [hd, hm, c1, c2, c3, ne_eq, not_true_eq_false, if_false, if_true, decodeBytes_put bs rest extra hv]
    simp [Nat.add_assoc, Nat.add_comm 1]

theorem pbResLoop_spec (extra : Bytes) (r : Response) (h : r.WF) :
    pbResLoop extra (pbResSpec r) 0 {} = .ok (r, (pbResSpec r).length) := by
  obtain ⟨hs, he, hr⟩ := h
  unfold pbResSpec
  rw [List.append_assoc, pbResLoop_seq _ _ _ _ _ hs, pbResLoop_error _ _ _ _ _ he]
  have := pbResLoop_reply extra [] (0 + (pbVarintField 1 r.seq).length + (pbBytesField 2 r.error).length)
    (if r.error.length = 0 then (if r.seq = 0 then ({} : Response) else { ({} : Response) with seq := r.seq }) else { (if r.seq = 0 then ({} : Response) else { ({} : Response) with seq := r.seq }) with error := r.error }) r.reply hr
  simp only [List.append_nil] at this
  rw [this, pbResLoop]
  congr 1
  cases r with
  | mk seq error reply =>
    simp only [Prod.mk.injEq, List.length_append]
    refine ⟨?_, by omega⟩
    by_cases h1 : seq = 0 <;> by_cases h2 : error.length = 0 <;> by_cases h3 : reply.length = 0 <;>
      simp_all [List.length_eq_zero_iff]

theorem pbRes_roundtrip (extra : Bytes) (r : Response) (h : r.WF) :
    pbResUnmarshal (pbResSpec r) extra = .ok r := by
  unfold pbResUnmarshal
  rw [pbResLoop_spec extra r h]
  simp [harden]

/-! code header -/

theorem putVarint_head_small (n : Nat) (h : n < 128) (rest : Bytes) :
    putVarint n ++ rest = UInt8.ofNat n :: rest := by rw [putVarint_small n h]; rfl

theorem putVarint_head_big (n : Nat) (h : ¬ n < 128) :
    ∃ tl, putVarint n = UInt8.ofNat (n % 128 + 128) :: tl := by
  unfold putVarint; simp [h]

theorem codeBytesField_put (bs rest extra : Bytes) (h : bs.length < 2^63) :
    codeBytesField (127, 0) (putVarint bs.length ++ bs ++ rest) extra
      = .ok (bs, (putVarint bs.length).length + bs.length) := by
  by_cases hbig : bs.length < 128
  · rw [putVarint_small _ hbig]
    simp only [List.cons_append, List.nil_append, codeBytesField, toNat_ofNat_lt _ (show bs.length < 256 by omega)]
    rw [if_neg (by omega)]
    by_cases h0 : bs.length > 0
    · rw [if_pos h0, if_pos (by simp; omega)]
      simp <;> omega
    · have : bs = [] := by cases bs <;> simp_all
      subst this; simp
  · obtain ⟨tl, htl⟩ := putVarint_head_big bs.length hbig
    have hd := decodeBytes_put bs rest extra h
    rw [htl] at hd ⊢
    simp only [List.cons_append] at hd ⊢
    unfold codeBytesField
    simp only [toNat_ofNat_lt _ (show bs.length % 128 + 128 < 256 by omega)]
    rw [if_pos (by omega)]
    exact hd

theorem codeStringField_put (bs rest extra : Bytes) (h : bs.length < 2^63) :
    codeStringField 0 (putVarint bs.length ++ bs ++ rest) extra
      = .ok (bs, (putVarint bs.length).length + bs.length) := by
  by_cases h0 : bs.length = 0
  · have : bs = [] := by cases bs <;> simp_all
    subst this
    simp [putVarint_small 0 (by omega), codeStringField]
  · have hd := decodeBytes_put bs rest extra h
    by_cases hbig : bs.length < 128
    · rw [putVarint_small _ hbig] at hd ⊢
      simp only [List.cons_append, List.nil_append] at hd ⊢
      unfold codeStringField
      simp only [toNat_ofNat_lt _ (show bs.length < 256 by omega)]
      rw [if_pos (by omega)]; exact hd
    · obtain ⟨tl, htl⟩ := putVarint_head_big bs.length hbig
      rw [htl] at hd ⊢
      simp only [List.cons_append] at hd ⊢
      unfold codeStringField
      simp only [toNat_ofNat_lt _ (show bs.length % 128 + 128 < 256 by omega)]
      rw [if_pos (by omega)]; exact hd

theorem drop_append_len {α} (a b : List α) (n : Nat) (h : n = a.length) : (a ++ b).drop n = b := by
  subst h; simp

theorem codeReqRaw_spec (extra : Bytes) (r : Request) (h : r.WF) :
    codeReqRaw (codeReqSpec r) extra = .ok (r, (codeReqSpec r).length) := by
  obtain ⟨hs, hu, hm, ha⟩ := h
  obtain ⟨-, -, -, -, -, d1, d2, d3, -, -⟩ := code_facts
  unfold codeReqRaw codeReqSpec
  simp only [d1, d2, d3]
  generalize hS : putVarint r.seq = S
  generalize hU : putVarint r.upgrade.length ++ r.upgrade = U
  generalize hM : putVarint r.method.length ++ r.method = M
  generalize hA : putVarint r.args.length ++ r.args = A
  have g0 : getVarint (S ++ U ++ M ++ A) = some (r.seq, S.length) := by
    rw [← hS, List.append_assoc, List.append_assoc]; exact getVarint_put _ hs _
  have e1 : codeBytesField (127, 0) (U ++ M ++ A) extra = .ok (r.upgrade, U.length) := by
    have := codeBytesField_put r.upgrade (M ++ A) extra hu
    rw [← hU]; simpa [List.append_assoc] using this
  have e2 : codeStringField 0 (M ++ A) extra = .ok (r.method, M.length) := by
    have := codeStringField_put r.method A extra hm
    rw [← hM]; simpa [List.append_assoc] using this
  have e3 : codeBytesField (127, 0) A extra = .ok (r.args, A.length) := by
    have := codeBytesField_put r.args [] extra ha
    rw [← hA]; simpa [List.append_assoc] using this
  have d1' : (S ++ U ++ M ++ A).drop S.length = U ++ M ++ A := by simp [List.append_assoc]
  have d2' : (S ++ U ++ M ++ A).drop (S.length + U.length) = M ++ A := by
    rw [show S ++ U ++ M ++ A = (S ++ U) ++ (M ++ A) by simp [List.append_assoc]]
    exact drop_append_len _ _ _ (by simp)
  have d3' : (S ++ U ++ M ++ A).drop (S.length + U.length + M.length) = A := by
    exact drop_append_len _ _ _ (by simp [Nat.add_assoc])
  rw [g0]
  simp only [bind, Res.bind, d1', e1, d2', e2, d3', e3, pure]
  simp [Nat.add_assoc]

theorem codeResRaw_spec (extra : Bytes) (r : Response) (h : r.WF) :
    codeResRaw (codeResSpec r) extra = .ok (r, (codeResSpec r).length) := by
  obtain ⟨hs, he, hr⟩ := h
  obtain ⟨-, -, -, -, -, -, -, -, d1, d2⟩ := code_facts
  unfold codeResRaw codeResSpec
  simp only [d1, d2]
  generalize hS : putVarint r.seq = S
  generalize hE : putVarint r.error.length ++ r.error = E
  generalize hR : putVarint r.reply.length ++ r.reply = R
  have g0 : getVarint (S ++ E ++ R) = some (r.seq, S.length) := by
    rw [← hS, List.append_assoc]; exact getVarint_put _ hs _
  have e1 : codeStringField 0 (E ++ R) extra = .ok (r.error, E.length) := by
    have := codeStringField_put r.error R extra he
    rw [← hE]; simpa [List.append_assoc] using this
  have e2 : codeBytesField (127, 0) R extra = .ok (r.reply, R.length) := by
    have := codeBytesField_put r.reply [] extra hr
    rw [← hR]; simpa [List.append_assoc] using this
  have d1' : (S ++ E ++ R).drop S.length = E ++ R := by simp [List.append_assoc]
  have d2' : (S ++ E ++ R).drop (S.length + E.length) = R := by
    exact drop_append_len _ _ _ (by simp)
  rw [g0]
  simp only [bind, Res.bind, d1', e1, d2', e2, pure]
  simp [Nat.add_assoc]

theorem codeReq_roundtrip (extra : Bytes) (r : Request) (h : r.WF) :
    codeReqUnmarshal (codeReqSpec r) extra = .ok r := by
  unfold codeReqUnmarshal
  rw [codeReqRaw_spec extra r h]
  simp [harden]

theorem codeRes_roundtrip (extra : Bytes) (r : Response) (h : r.WF) :
    codeResUnmarshal (codeResSpec r) extra = .ok r := by
  unfold codeResUnmarshal
  rw [codeResRaw_spec extra r h]
  simp [harden]

end RpcVerif.Wire

namespace RpcVerif.Wire
open RpcVerif

/-! ### Decoders neither crash nor read past the frame (with the hardening in place) -/

/-- A field decode that cannot be completed inside the readable bytes. -/
def Bad (len : Nat) : Res (Bytes × Nat) → Prop
  | .panic _ => True
  | .ok (_, n) => n > len
  | .err _ => False

theorem decodeBytes_dichotomy (rd e1 e2 : Bytes) :
    (∃ f n, n ≤ rd.length ∧ decodeBytes rd e1 = .ok (f, n) ∧ decodeBytes rd e2 = .ok (f, n)) ∨
    (Bad rd.length (decodeBytes rd e1) ∧ Bad rd.length (decodeBytes rd e2)) := by
  unfold decodeBytes
  cases hg : getVarint rd with
  | none => right; simp [Bad]
  | some p =>
    obtain ⟨t, n⟩ := p
    simp only
    by_cases hin : n + t ≤ rd.length
    · left
      refine ⟨(rd.drop n).take t, n + t, hin, ?_, ?_⟩ <;>
      · rw [if_pos (by simp; omega)]
        congr 2
        rw [List.drop_append_of_le_length (by omega), List.take_append_of_le_length (by simp; omega)]
    · right
      constructor <;> (split <;> simp [Bad] <;> omega)

theorem harden_err_of_big {α} (L : Nat) (a : α) (off : Nat) (h : off > L) :
    harden true true L (.ok (a, off)) = .err "malformed header" := by
  simp [harden, h]

theorem pbReqLoop_nil (extra : Bytes) (off : Nat) (acc : Request) :
    pbReqLoop extra [] off acc = .ok (acc, off) := by rw [pbReqLoop]

theorem pbResLoop_nil (extra : Bytes) (off : Nat) (acc : Response) :
    pbResLoop extra [] off acc = .ok (acc, off) := by rw [pbResLoop]

theorem pbReqLoop_extra_irrel (e1 e2 : Bytes) : ∀ (k : Nat) (rem : Bytes), rem.length = k →
    ∀ (off : Nat) (acc : Request) (L : Nat), L = off + rem.length →
    harden true true L (pbReqLoop e1 rem off acc) = harden true true L (pbReqLoop e2 rem off acc) := by
  intro k
  induction k using Nat.strongRecOn with
  | _ k ih =>
    intro rem hk off acc L hL
    cases rem with
    | nil => simp [pbReqLoop_nil]
    | cons tag rest =>
      have hk' : rest.length + 1 = k := by simpa using hk
      have hL' : L = off + (rest.length + 1) := by simpa using hL
      have hbytes : ∀ (upd : Request → Bytes → Request),
          harden true true L (match decodeBytes rest e1 with
            | .ok (f, n) => pbReqLoop e1 (rest.drop n) (off + 1 + n) (upd acc f)
            | .err e => .err e
            | .panic k => .panic k)
          = harden true true L (match decodeBytes rest e2 with
            | .ok (f, n) => pbReqLoop e2 (rest.drop n) (off + 1 + n) (upd acc f)
            | .err e => .err e
            | .panic k => .panic k) := by
        intro upd
        rcases decodeBytes_dichotomy rest e1 e2 with ⟨f, n, hn, h1, h2⟩ | ⟨b1, b2⟩
        · rw [h1, h2]
          simp only
          exact ih (rest.drop n).length (by simp; omega) _ rfl _ _ _ (by simp; omega)
        · have hside : ∀ (e : Bytes), Bad rest.length (decodeBytes rest e) →
              harden true true L (match decodeBytes rest e with
                | .ok (f, n) => pbReqLoop e (rest.drop n) (off + 1 + n) (upd acc f)
                | .err e => .err e
                | .panic k => .panic k) = .err "malformed header" := by
            intro e hb
            cases hd : decodeBytes rest e with
            | panic k => simp [harden]
            | err m => rw [hd] at hb; simp [Bad] at hb
            | ok p =>
              obtain ⟨f, n⟩ := p
              rw [hd] at hb
              simp only [Bad] at hb
              simp only
              rw [List.drop_of_length_le (by omega), pbReqLoop_nil]
              apply harden_err_of_big
              omega
          rw [hside e1 b1, hside e2 b2]
      rw [pbReqLoop, pbReqLoop]
      split
      · split
        · rfl
        · cases hg : getVarint rest with
          | none => simp [harden]
          | some p =>
            obtain ⟨v, n⟩ := p
            simp only
            have hb := getVarint_bounds rest v n hg
            exact ih (rest.drop n).length (by simp; omega) _ rfl _ _ _ (by simp; omega)
      · split
        · split
          · rfl
          · exact hbytes (fun a f => { a with upgrade := f })
        · split
          · split
            · rfl
            · exact hbytes (fun a f => { a with method := f })
          · split
            · split
              · rfl
              · exact hbytes (fun a f => { a with args := f })
            · exact ih rest.length (by omega) _ rfl _ _ _ (by omega)

end RpcVerif.Wire

namespace RpcVerif.Wire
open RpcVerif

theorem pbResLoop_extra_irrel (e1 e2 : Bytes) : ∀ (k : Nat) (rem : Bytes), rem.length = k →
    ∀ (off : Nat) (acc : Response) (L : Nat), L = off + rem.length →
    harden true true L (pbResLoop e1 rem off acc) = harden true true L (pbResLoop e2 rem off acc) := by
  intro k
  induction k using Nat.strongRecOn with
  | _ k ih =>
    intro rem hk off acc L hL
    cases rem with
    | nil => simp [pbResLoop_nil]
    | cons tag rest =>
      have hk' : rest.length + 1 = k := by simpa using hk
      have hL' : L = off + (rest.length + 1) := by simpa using hL
      have hbytes : ∀ (upd : Response → Bytes → Response),
          harden true true L (match decodeBytes rest e1 with
            | .ok (f, n) => pbResLoop e1 (rest.drop n) (off + 1 + n) (upd acc f)
            | .err e => .err e
            | .panic k => .panic k)
          = harden true true L (match decodeBytes rest e2 with
            | .ok (f, n) => pbResLoop e2 (rest.drop n) (off + 1 + n) (upd acc f)
            | .err e => .err e
            | .panic k => .panic k) := by
        intro upd
        rcases decodeBytes_dichotomy rest e1 e2 with ⟨f, n, hn, h1, h2⟩ | ⟨b1, b2⟩
        · rw [h1, h2]
          simp only
          exact ih (rest.drop n).length (by simp; omega) _ rfl _ _ _ (by simp; omega)
        · have hside : ∀ (e : Bytes), Bad rest.length (decodeBytes rest e) →
              harden true true L (match decodeBytes rest e with
                | .ok (f, n) => pbResLoop e (rest.drop n) (off + 1 + n) (upd acc f)
                | .err e => .err e
                | .panic k => .panic k) = .err "malformed header" := by
            intro e hb
            cases hd : decodeBytes rest e with
            | panic k => simp [harden]
            | err m => rw [hd] at hb; simp [Bad] at hb
            | ok p =>
              obtain ⟨f, n⟩ := p
              rw [hd] at hb
              simp only [Bad] at hb
              simp only
              rw [List.drop_of_length_le (by omega), pbResLoop_nil]
              apply harden_err_of_big
              omega
          rw [hside e1 b1, hside e2 b2]
      rw [pbResLoop, pbResLoop]
      split
      · split
        · rfl
        · cases hg : getVarint rest with
          | none => simp [harden]
          | some p =>
            obtain ⟨v, n⟩ := p
            simp only
            have hb := getVarint_bounds rest v n hg
            exact ih (rest.drop n).length (by simp; omega) _ rfl _ _ _ (by simp; omega)
      · split
        · split
          · rfl
          · exact hbytes (fun a f => { a with error := f })
        · split
          · split
            · rfl
            · exact hbytes (fun a f => { a with reply := f })
          · exact ih rest.length (by omega) _ rfl _ _ _ (by omega)

/-- **no over-read**, pb: with the hardening in place the result of decoding a frame does not
    depend on what lies behind it in the read buffer (stale bytes of earlier traffic). -/
theorem pbReq_extra_irrel (hr : Gen.pbReqRecovers = true) (hc : Gen.pbReqChecksOverrun = true)
    (frame e1 e2 : Bytes) : pbReqUnmarshal frame e1 = pbReqUnmarshal frame e2 := by
  unfold pbReqUnmarshal; rw [hr, hc]
  exact pbReqLoop_extra_irrel e1 e2 _ _ rfl _ _ _ (by simp)

theorem pbRes_extra_irrel (hr : Gen.pbResRecovers = true) (hc : Gen.pbResChecksOverrun = true)
    (frame e1 e2 : Bytes) : pbResUnmarshal frame e1 = pbResUnmarshal frame e2 := by
  unfold pbResUnmarshal; rw [hr, hc]
  exact pbResLoop_extra_irrel e1 e2 _ _ rfl _ _ _ (by simp)

theorem harden_no_panic {α} (checks : Bool) (L : Nat) (raw : Res (α × Nat)) :
    (harden true checks L raw).isPanic = false := by
  unfold harden; split
  · split <;> rfl
  · rfl
  · rfl

theorem codeBytesField_dichotomy (th : Nat × Nat) (rd e1 e2 : Bytes) :
    (∃ f n, n ≤ rd.length ∧ codeBytesField th rd e1 = .ok (f, n) ∧ codeBytesField th rd e2 = .ok (f, n)) ∨
    (Bad rd.length (codeBytesField th rd e1) ∧ Bad rd.length (codeBytesField th rd e2)) := by
  unfold codeBytesField
  cases rd with
  | nil => right; simp [Bad]
  | cons b tl =>
    simp only
    split
    · exact decodeBytes_dichotomy (b :: tl) e1 e2
    · split
      · by_cases hin : 1 + b.toNat ≤ (b :: tl).length
        · left
          refine ⟨((b :: tl).drop 1).take b.toNat, 1 + b.toNat, hin, ?_, ?_⟩ <;>
          · rw [if_pos (by simp at hin ⊢; omega)]
            congr 2
            simp only [List.cons_append, List.drop_succ_cons, List.drop_zero]
            rw [List.take_append_of_le_length (by simp at hin; omega)]
        · right
          constructor <;> (split <;> simp [Bad] <;> (simp at hin; omega))
      · left; exact ⟨[], 1, by simp, rfl, rfl⟩

theorem codeStringField_dichotomy (th : Nat) (rd e1 e2 : Bytes) :
    (∃ f n, n ≤ rd.length ∧ codeStringField th rd e1 = .ok (f, n) ∧ codeStringField th rd e2 = .ok (f, n)) ∨
    (Bad rd.length (codeStringField th rd e1) ∧ Bad rd.length (codeStringField th rd e2)) := by
  unfold codeStringField
  cases rd with
  | nil => right; simp [Bad]
  | cons b tl =>
    simp only
    split
    · exact decodeBytes_dichotomy (b :: tl) e1 e2
    · left; exact ⟨[], 1, by simp, rfl, rfl⟩

theorem codeBytesField_nil (th : Nat × Nat) (e : Bytes) : codeBytesField th [] e = .panic "index out of range" := rfl
theorem codeStringField_nil (th : Nat) (e : Bytes) : codeStringField th [] e = .panic "index out of range" := rfl

end RpcVerif.Wire

namespace RpcVerif.Wire
open RpcVerif

theorem Res.bind_ok' {α β} (a : α) (f : α → Res β) : (Res.ok a).bind f = f a := rfl

theorem harden_bind_bad {α} (x : Res (Bytes × Nat)) (k : Bytes × Nat → Res (α × Nat)) (L len : Nat)
    (hb : Bad len x) (hk : ∀ f n, n > len → harden true true L (k (f, n)) = .err "malformed header") :
    harden true true L (x.bind k) = .err "malformed header" := by
  cases x with
  | panic m => simp [Res.bind, harden]
  | err m => simp [Bad] at hb
  | ok p => obtain ⟨f, n⟩ := p; simp only [Bad] at hb; exact hk f n hb

theorem harden_panic {α} (L : Nat) (m : String) :
    harden true true L (Res.panic m : Res (α × Nat)) = .err "malformed header" := by simp [harden]

theorem codeReqRaw_extra_irrel (frame e1 e2 : Bytes) :
    harden true true frame.length (codeReqRaw frame e1) = harden true true frame.length (codeReqRaw frame e2) := by
  unfold codeReqRaw
  cases hg : getVarint frame with
  | none => simp [harden]
  | some p =>
    obtain ⟨seq, n0⟩ := p
    have hb := getVarint_bounds frame seq n0 hg
    simp only [bind, pure]
    have hdl : ∀ n, (frame.drop n).length = frame.length - n := by intro n; simp
    rcases codeBytesField_dichotomy Gen.codeReqDec_Upgrade (frame.drop n0) e1 e2 with ⟨u, n1, hn1, h1, h2⟩ | ⟨b1, b2⟩
    · rw [h1, h2]; simp only [Res.bind_ok']
      rw [hdl] at hn1
      rcases codeStringField_dichotomy Gen.codeReqDec_ServiceMethod (frame.drop (n0 + n1)) e1 e2 with ⟨m, n2, hn2, h3, h4⟩ | ⟨b3, b4⟩
      · rw [h3, h4]; simp only [Res.bind_ok']
        rw [hdl] at hn2
        rcases codeBytesField_dichotomy Gen.codeReqDec_Args (frame.drop (n0 + n1 + n2)) e1 e2 with ⟨a, n3, hn3, h5, h6⟩ | ⟨b5, b6⟩
        · rw [h5, h6]
        · rw [harden_bind_bad _ _ _ _ b5, harden_bind_bad _ _ _ _ b6]
          all_goals (intro f n hn; rw [hdl] at hn; apply harden_err_of_big; omega)
      · rw [harden_bind_bad _ _ _ _ b3, harden_bind_bad _ _ _ _ b4]
        all_goals (intro f n hn; rw [hdl] at hn; simp only
                   rw [List.drop_of_length_le (by omega), codeBytesField_nil]; exact harden_panic _ _)
    · rw [harden_bind_bad _ _ _ _ b1, harden_bind_bad _ _ _ _ b2]
      all_goals (intro f n hn; rw [hdl] at hn; simp only
                 rw [List.drop_of_length_le (by omega), codeStringField_nil]; exact harden_panic _ _)

theorem codeResRaw_extra_irrel (frame e1 e2 : Bytes) :
    harden true true frame.length (codeResRaw frame e1) = harden true true frame.length (codeResRaw frame e2) := by
  unfold codeResRaw
  cases hg : getVarint frame with
  | none => simp [harden]
  | some p =>
    obtain ⟨seq, n0⟩ := p
    have hb := getVarint_bounds frame seq n0 hg
    simp only [bind, pure]
    have hdl : ∀ n, (frame.drop n).length = frame.length - n := by intro n; simp
    rcases codeStringField_dichotomy Gen.codeResDec_Error (frame.drop n0) e1 e2 with ⟨u, n1, hn1, h1, h2⟩ | ⟨b1, b2⟩
    · rw [h1, h2]; simp only [Res.bind_ok']
      rw [hdl] at hn1
      rcases codeBytesField_dichotomy Gen.codeResDec_Reply (frame.drop (n0 + n1)) e1 e2 with ⟨m, n2, hn2, h3, h4⟩ | ⟨b3, b4⟩
      · rw [h3, h4]
      · rw [harden_bind_bad _ _ _ _ b3, harden_bind_bad _ _ _ _ b4]
        all_goals (intro f n hn; rw [hdl] at hn; apply harden_err_of_big; omega)
    · rw [harden_bind_bad _ _ _ _ b1, harden_bind_bad _ _ _ _ b2]
      all_goals (intro f n hn; rw [hdl] at hn; simp only
                 rw [List.drop_of_length_le (by omega), codeBytesField_nil]; exact harden_panic _ _)

theorem codeReq_extra_irrel (hr : Gen.codeReqRecovers = true) (hc : Gen.codeReqChecksOverrun = true)
    (frame e1 e2 : Bytes) : codeReqUnmarshal frame e1 = codeReqUnmarshal frame e2 := by
  unfold codeReqUnmarshal; rw [hr, hc]; exact codeReqRaw_extra_irrel frame e1 e2

theorem codeRes_extra_irrel (hr : Gen.codeResRecovers = true) (hc : Gen.codeResChecksOverrun = true)
    (frame e1 e2 : Bytes) : codeResUnmarshal frame e1 = codeResUnmarshal frame e2 := by
  unfold codeResUnmarshal; rw [hr, hc]; exact codeResRaw_extra_irrel frame e1 e2

end RpcVerif.Wire
