import RpcVerif.Model.Wire
namespace RpcVerif.Wire
open RpcVerif

def mkUpgrade (a b c : Fin 2) (d : Fin 4) : Upgrade :=
  { noRequest := UInt8.ofNat a.val, noResponse := UInt8.ofNat b.val, heartbeat := UInt8.ofNat c.val, stream := UInt8.ofNat d.val }

theorem upgrade_table : ∀ (a b c : Fin 2) (d : Fin 4),
    Upgrade.unpack (mkUpgrade a b c d).pack = mkUpgrade a b c d ∧
    ((mkUpgrade a b c d).isZero = true ↔ (a.val = 0 ∧ b.val = 0 ∧ c.val = 0 ∧ d.val = 0)) := by decide

theorem upgrade_pack_injective_table : ∀ (a b c : Fin 2) (d : Fin 4) (a' b' c' : Fin 2) (d' : Fin 4),
    (mkUpgrade a b c d).pack = (mkUpgrade a' b' c' d').pack → (a = a' ∧ b = b' ∧ c = c' ∧ d = d') := by decide

theorem u8_ofNat_toNat (x : UInt8) : UInt8.ofNat x.toNat = x := by
  cases x with | ofBitVec v => simp [UInt8.ofNat, UInt8.toNat]

theorem valid_is_mk (u : Upgrade) (h : u.valid = true) :
    ∃ a b c d, u = mkUpgrade a b c d := by
  simp only [Upgrade.valid, Bool.and_eq_true, decide_eq_true_eq, UInt8.le_iff_toNat_le] at h
  obtain ⟨⟨⟨h1, h2⟩, h3⟩, h4⟩ := h
  refine ⟨⟨u.noRequest.toNat, by simp at h1; omega⟩, ⟨u.noResponse.toNat, by simp at h2; omega⟩,
    ⟨u.heartbeat.toNat, by simp at h3; omega⟩, ⟨u.stream.toNat, by simp at h4; omega⟩, ?_⟩
  cases u; simp [mkUpgrade]

/-- **upgrade flags round-trip** for every combination the library can produce. -/
theorem upgrade_roundtrip (u : Upgrade) (h : u.valid = true) : Upgrade.unpack u.pack = u := by
  obtain ⟨a, b, c, d, rfl⟩ := valid_is_mk u h
  exact (upgrade_table a b c d).1

theorem upgrade_pack_injective (u v : Upgrade) (hu : u.valid = true) (hv : v.valid = true)
    (h : u.pack = v.pack) : u = v := by
  obtain ⟨a, b, c, d, rfl⟩ := valid_is_mk u hu
  obtain ⟨a', b', c', d', rfl⟩ := valid_is_mk v hv
  obtain ⟨rfl, rfl, rfl, rfl⟩ := upgrade_pack_injective_table a b c d a' b' c' d' h
  rfl

theorem upgrade_isZero_iff (u : Upgrade) (h : u.valid = true) : u.isZero = true ↔ u = {} := by
  obtain ⟨a, b, c, d, rfl⟩ := valid_is_mk u h
  rw [(upgrade_table a b c d).2]
  constructor
  · rintro ⟨ha, hb, hc, hd⟩
    have : a = 0 := Fin.ext ha
    have : b = 0 := Fin.ext hb
    have : c = 0 := Fin.ext hc
    have : d = 0 := Fin.ext hd
    subst_vars; rfl
  · intro h
    have := congrArg Upgrade.noRequest h
    have h2 := congrArg Upgrade.noResponse h
    have h3 := congrArg Upgrade.heartbeat h
    have h4 := congrArg Upgrade.stream h
    revert this h2 h3 h4
    revert a b c d
    decide

/-- Through the wire form used by `send` / `readRequestHeader`: the zero value travels as no bytes. -/
theorem upgrade_wire_roundtrip (u : Upgrade) (h : u.valid = true) : Upgrade.ofWire u.wire = u := by
  unfold Upgrade.wire
  by_cases hz : u.isZero = true
  · simp [hz, Upgrade.ofWire]; exact ((upgrade_isZero_iff u h).1 hz).symm
  · simp [hz, Upgrade.ofWire]; exact upgrade_roundtrip u h

/-- Every byte a peer can send decodes to in-range flags (no byte is out of the table). -/
theorem upgrade_unpack_valid_table : ∀ n : Fin 256, (Upgrade.unpack (UInt8.ofNat n.val)).valid = true := by decide +kernel

theorem upgrade_unpack_valid (d : UInt8) : (Upgrade.unpack d).valid = true := by
  have := upgrade_unpack_valid_table ⟨d.toNat, UInt8.toNat_lt d⟩
  simpa [u8_ofNat_toNat] using this

end RpcVerif.Wire
