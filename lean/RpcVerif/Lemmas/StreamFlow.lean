import RpcVerif.Lemmas.StreamPath
/-
  T (the stream layer of one connection), part 4: stream by stream, what was delivered, what is
  queued and what is still on the path, against what the other side wrote (`InvU`: client → server,
  `InvD`: server → client).
-/
namespace RpcVerif.T
open RpcVerif

/-! ### message values on a path -/

/-- the stream messages for sequence number q in a list of frames (= `msgsOf`) -/
def vk (q : Nat) (fs : List Frame) : List Nat := valsOf (kindsOf q fs)

theorem msgsOf_vk (q : Nat) (fs : List Frame) : msgsOf q fs = vk q fs := msgsOf_eq q fs
theorem vk_append (q : Nat) (a b : List Frame) : vk q (a ++ b) = vk q a ++ vk q b := by
  unfold vk; rw [kindsOf_append, valsOf_append]
theorem vk_nil (q : Nat) : vk q [] = [] := rfl
theorem valsOf_cons_nonmsg {k : FKind} (l : List FKind) (h : k.isMsg = false) : valsOf (k :: l) = valsOf l := by
  cases k <;> first | rfl | (simp [FKind.isMsg] at h)
theorem vk_cons_ne {q : Nat} {f : Frame} (l : List Frame) (h : f.seq ≠ q) : vk q (f :: l) = vk q l := by
  unfold vk; rw [kindsOf_cons_ne l h]
theorem vk_cons_nonmsg {q : Nat} {f : Frame} (l : List Frame) (h : f.kind.isMsg = false) : vk q (f :: l) = vk q l := by
  unfold vk
  by_cases hq : f.seq = q
  · rw [kindsOf_cons_eq l hq, valsOf_cons_nonmsg _ h]
  · rw [kindsOf_cons_ne l hq]
theorem vk_cons_msg (q m : Nat) (l : List Frame) : vk q (⟨q, .msg m⟩ :: l) = m :: vk q l := by
  unfold vk; rw [kindsOf_cons_eq (q := q) (f := ⟨q, .msg m⟩) l rfl]; rfl
theorem vk_single_ne {q : Nat} {f : Frame} (h : f.seq ≠ q) : vk q [f] = [] := vk_cons_ne [] h
theorem vk_single_nonmsg {q : Nat} {f : Frame} (h : f.kind.isMsg = false) : vk q [f] = [] := vk_cons_nonmsg [] h
theorem vk_single_msg (q m : Nat) : vk q [⟨q, .msg m⟩] = [m] := vk_cons_msg q m []
theorem vk_prefix (q : Nat) {a b : List Frame} (h : a <+: b) : vk q a <+: vk q b :=
  valsOf_prefix (kindsOf_prefix q h)
theorem vk_all_nonmsg {q : Nat} {fs : List Frame} (h : ∀ k ∈ kindsOf q fs, k.isMsg = false) : vk q fs = [] := by
  unfold vk
  generalize kindsOf q fs = ks at h
  induction ks with
  | nil => rfl
  | cons k l ih =>
    rw [valsOf_cons_nonmsg _ (h k (List.mem_cons_self ..))]
    exact ih fun k' hk' => h k' (List.mem_cons_of_mem _ hk')

theorem prefix_of_append_prefix {α : Type} {a b w : List α} (h : a ++ b <+: w) : a <+: w :=
  (List.prefix_append a b).trans h

/-! ### U: client → server, stream by stream -/

/-- `B`: delivered, queued or handed to the stream worker; `vals`: still on the path; `W`: written by the peer -/
def PU (cut inT : Bool) (B vals W : List Nat) : Prop :=
  B <+: W ∧ (inT = true → B ++ vals <+: W ∧ (cut = false → B ++ vals = W))

def InvU (s : State) : Prop :=
  ∀ c ∈ s.cs, ∀ t ∈ s.ss, t.seq = c.seq →
    PU s.cut t.inTable (t.e.delivered ++ t.e.events ++ tasksOf t.seq s.sStreamQ) (vk t.seq (up s)) c.e.written

theorem invU_init (cfg : Cfg) : InvU (init cfg) := fun _ h => (by cases h)

theorem invU_same {s s' : State} (h : InvU s) (hcut : s'.cut = s.cut)
    (hc : ∀ c' ∈ s'.cs, (∃ c ∈ s.cs, c.seq = c'.seq ∧ c.e.written = c'.e.written) ∨ ∀ t' ∈ s'.ss, t'.seq ≠ c'.seq)
    (ht : ∀ t' ∈ s'.ss, ∃ t ∈ s.ss, t.seq = t'.seq ∧ (t'.inTable = true → t.inTable = true) ∧
      t'.e.delivered ++ t'.e.events = t.e.delivered ++ t.e.events)
    (hup : ∀ t ∈ s.ss, t.inTable = true → vk t.seq (up s') = vk t.seq (up s))
    (htq : ∀ t ∈ s.ss, tasksOf t.seq s'.sStreamQ = tasksOf t.seq s.sStreamQ) : InvU s' := by
  intro c' hc' t' ht' hseq
  rcases hc c' hc' with ⟨c, hcm, hcs, hcw⟩ | hno
  · obtain ⟨t, htm, hts, hti, hte⟩ := ht t' ht'
    obtain ⟨p1, p2⟩ := h c hcm t htm (hts.trans (hseq.trans hcs.symm))
    rw [hcut, ← hts, htq t htm, hte, ← hcw]
    refine ⟨p1, fun hi => ?_⟩
    rw [hup t htm (hti hi)]
    exact p2 (hti hi)
  · exact absurd hseq (hno t' ht')

theorem hc_id (s : State) (ss' : List SStream) :
    ∀ c' ∈ s.cs, (∃ c ∈ s.cs, c.seq = c'.seq ∧ c.e.written = c'.e.written) ∨ ∀ t' ∈ ss', t'.seq ≠ c'.seq :=
  fun c' hc' => Or.inl ⟨c', hc', rfl, rfl⟩

theorem hc_updC {q : Nat} {g : CStream → CStream} {cs : List CStream} (ss' : List SStream)
    (hg : ∀ c ∈ cs, c.seq = q → (g c).seq = c.seq ∧ (g c).e.written = c.e.written) :
    ∀ c' ∈ updC q g cs, (∃ c ∈ cs, c.seq = c'.seq ∧ c.e.written = c'.e.written) ∨ ∀ t' ∈ ss', t'.seq ≠ c'.seq := by
  intro c' hc'
  rcases mem_updC hc' with ⟨h1, _⟩ | ⟨c, hc, hq, rfl⟩
  · exact Or.inl ⟨c', h1, rfl, rfl⟩
  · exact Or.inl ⟨c, hc, (hg c hc hq).1.symm, (hg c hc hq).2.symm⟩

theorem ht_id (s : State) : ∀ t' ∈ s.ss, ∃ t ∈ s.ss, t.seq = t'.seq ∧ (t'.inTable = true → t.inTable = true) ∧
    t'.e.delivered ++ t'.e.events = t.e.delivered ++ t.e.events :=
  fun t' ht' => ⟨t', ht', rfl, id, rfl⟩

theorem ht_updS {q : Nat} {g : SStream → SStream} {ss : List SStream}
    (hg : ∀ t ∈ ss, t.seq = q → (g t).seq = t.seq ∧ ((g t).inTable = true → t.inTable = true) ∧
      (g t).e.delivered ++ (g t).e.events = t.e.delivered ++ t.e.events) :
    ∀ t' ∈ updS q g ss, ∃ t ∈ ss, t.seq = t'.seq ∧ (t'.inTable = true → t.inTable = true) ∧
      t'.e.delivered ++ t'.e.events = t.e.delivered ++ t.e.events := by
  intro t' ht'
  rcases mem_updS ht' with ⟨h1, _⟩ | ⟨t, ht, hq, rfl⟩
  · exact ⟨t', h1, rfl, id, rfl⟩
  · obtain ⟨g1, g2, g3⟩ := hg t ht hq
    exact ⟨t, ht, g1.symm, g2, g3⟩

theorem trigC_written (v : Nat) (c : CStream) : (trigC v c).e.written = c.e.written := by
  unfold trigC; split
  · exact trigger_written _ _
  · rfl


theorem PU_write {cut inT : Bool} {B vals vals' W : List Nat} (m : Nat) (h : PU cut inT B vals W)
    (hv : (cut = true ∧ vals' = vals) ∨ (cut = false ∧ vals' = vals ++ [m])) : PU cut inT B vals' (W ++ [m]) := by
  obtain ⟨p1, p2⟩ := h
  refine ⟨p1.trans (List.prefix_append _ _), fun hi => ?_⟩
  obtain ⟨p3, p4⟩ := p2 hi
  rcases hv with ⟨hc, rfl⟩ | ⟨hc, rfl⟩
  · exact ⟨p3.trans (List.prefix_append _ _), fun hh => bft hh hc⟩
  · have := p4 hc
    rw [← List.append_assoc, this]
    exact ⟨List.prefix_rfl, fun _ => rfl⟩

theorem PU_take {cut inT : Bool} {B vals W : List Nat} (m : Nat) (h : PU cut true B (m :: vals) W) :
    PU cut inT (B ++ [m]) vals W := by
  obtain ⟨p3, p4⟩ := h.2 rfl
  have e : B ++ [m] ++ vals = B ++ m :: vals := by simp
  refine ⟨?_, fun _ => ?_⟩
  · exact ((List.prefix_append _ vals).trans (e ▸ p3))
  · rw [e]; exact ⟨p3, p4⟩

theorem PU_cutoff {cut inT : Bool} {B vals vals' W : List Nat} (h : PU cut inT B vals W) (hv : vals' <+: vals) :
    PU true inT B vals' W := by
  obtain ⟨p1, p2⟩ := h
  refine ⟨p1, fun hi => ⟨?_, fun hh => (by cases hh)⟩⟩
  exact ((List.prefix_append_right_inj B).2 hv).trans (p2 hi).1

theorem vk_sentC_nonmsg (s : State) {f : Frame} (q : Nat) (h : f.kind.isMsg = false) : vk q (sentC s f) = [] := by
  unfold sentC; split
  · rfl
  · exact vk_single_nonmsg h

theorem sweepC_written (hf : allFlags = true) (c : CStream) : (sweepC c).e.written = c.e.written := by
  rw [(sweepC_fields hf c).2.2.2.2.2]; split
  · exact stop_written _
  · rfl

theorem invU_tr (hf : allFlags = true) {s s' : State} (hG : InvG s) (hL : InvL s) (hQ : InvQ s) (hN : InvN s)
    (h : InvU s) (t : Tr s s') : InvU s' := by
  cases t
  case cOpen hsh =>
    refine invU_same h rfl ?_ (ht_id s) (fun t _ _ => ?_) (fun _ _ => rfl)
    · intro c' hc'
      rcases List.mem_append.1 hc' with hc' | hc'
      · exact Or.inl ⟨c', hc', rfl, rfl⟩
      · simp only [List.mem_singleton] at hc'
        subst hc'
        refine Or.inr fun t' ht' he => ?_
        have := hQ.clt _ (hQ.sc _ (mem_sseqs ht'))
        have he' : t'.seq = s.nextSeq := he
        omega
    · change vk _ (s.sDecodeQ ++ pushC s _) = _
      rw [up_push, vk_append, vk_sentC_nonmsg s _ rfl, List.append_nil]
  case cWriteErr q c hc ho hcl =>
    exact invU_same h rfl (hc_updC _ (by intro c _ _; exact ⟨rfl, rfl⟩)) (ht_id s) (fun _ _ _ => rfl) (fun _ _ => rfl)
  case cWriteOk q m c hc ho hcl hsh =>
    intro c' hc' t' ht' hseq
    change PU _ _ _ (vk _ (s.sDecodeQ ++ pushC s _)) _
    rw [up_push, vk_append]
    rcases mem_updC hc' with ⟨h1, h2⟩ | ⟨c1, hc1, hq1, rfl⟩
    · have old := h c' h1 t' ht' hseq
      have : vk t'.seq (sentC s ⟨q, .msg m⟩) = [] := by
        unfold sentC; split
        · rfl
        · exact vk_single_ne (fun he => h2 (hseq ▸ he.symm))
      rw [this, List.append_nil]
      exact old
    · have old := h c1 hc1 t' ht' hseq
      have hq' : t'.seq = q := hseq.trans hq1
      refine PU_write m old ?_
      rcases sentC_cases s ⟨q, .msg m⟩ with ⟨h1, h2⟩ | ⟨h1, h2⟩
      · exact Or.inl ⟨h1, by rw [h2, vk_nil, List.append_nil]⟩
      · exact Or.inr ⟨h1, by rw [h2, hq', vk_single_msg]⟩
  case cRead q c e' hc ho hr =>
    refine invU_same h rfl (hc_updC _ ?_) (ht_id s) (fun _ _ _ => rfl) (fun _ _ => rfl)
    intro c1 hc1 hq1
    rw [getC_unique hQ.nc hc hc1 hq1]
    exact ⟨rfl, (read_hist _ _ hr).2.2⟩
  case cCloseShut q c hc ho hsh =>
    exact invU_same h rfl (hc_updC _ (by intro c _ _; exact ⟨rfl, stop_written _⟩)) (ht_id s) (fun _ _ _ => rfl) (fun _ _ => rfl)
  case cCloseSend q c hc ho hsh =>
    refine invU_same h rfl (hc_updC _ (by intro c _ _; exact ⟨rfl, stop_written _⟩)) (ht_id s) (fun t _ _ => ?_) (fun _ _ => rfl)
    change vk _ (s.sDecodeQ ++ pushC s _) = _
    rw [up_push, vk_append, vk_sentC_nonmsg s _ rfl, List.append_nil]
  case cCall hsh =>
    refine invU_same h rfl (hc_id s _) (ht_id s) (fun t _ _ => ?_) (fun _ _ => rfl)
    change vk _ (s.sDecodeQ ++ pushC s _) = _
    rw [up_push, vk_append, vk_sentC_nonmsg s _ rfl, List.append_nil]
  case cRecvQ f rest hsh hl hd =>
    exact invU_same h rfl (hc_id s _) (ht_id s) (fun _ _ _ => rfl) (fun _ _ => rfl)
  case cpSkip f dq s2c' hp _ =>
    exact invU_same h rfl (hc_id s _) (ht_id s) (fun _ _ _ => rfl) (fun _ _ => rfl)
  case cpCloseDone f dq s2c' c hp hsh hc hpe =>
    exact invU_same h rfl (hc_updC _ (by intro c _ _; exact ⟨rfl, rfl⟩)) (ht_id s) (fun _ _ _ => rfl) (fun _ _ => rfl)
  case cpOpened f dq s2c' c hp hsh hc hpe hph =>
    exact invU_same h rfl (hc_updC _ (by intro c _ _; exact ⟨rfl, rfl⟩)) (ht_id s) (fun _ _ _ => rfl) (fun _ _ => rfl)
  case cpMsgD f dq s2c' c hp hsh hc hpe hph hd =>
    exact invU_same h rfl (hc_updC _ (fun c _ _ => ⟨trigC_seq _ c, trigC_written _ c⟩)) (ht_id s) (fun _ _ _ => rfl) (fun _ _ => rfl)
  case cpMsgQ f dq s2c' c hp hsh hc hpe hph hd =>
    exact invU_same h rfl (hc_id s _) (ht_id s) (fun _ _ _ => rfl) (fun _ _ => rfl)
  case cpUnary f dq s2c' hp hsh hc =>
    exact invU_same h rfl (hc_id s _) (ht_id s) (fun _ _ _ => rfl) (fun _ _ => rfl)
  case cStreamRun t rest hl =>
    exact invU_same h rfl (hc_updC _ (fun c _ _ => ⟨trigC_seq _ c, trigC_written _ c⟩)) (ht_id s) (fun _ _ _ => rfl) (fun _ _ => rfl)
  case cSweep hsh hcut h1 h2 =>
    refine invU_same h rfl ?_ (ht_id s) (fun _ _ _ => rfl) (fun _ _ => rfl)
    intro c' hc'
    obtain ⟨c, hc, rfl⟩ := List.mem_map.1 hc'
    exact Or.inl ⟨c, hc, (sweepC_fields hf c).1.symm, (sweepC_written hf c).symm⟩
  case sRecvQ f rest he hl hd =>
    refine invU_same h rfl (hc_id s _) (ht_id s) (fun t _ _ => ?_) (fun _ _ => rfl)
    change vk _ ((s.sDecodeQ ++ [f]) ++ rest) = vk _ (s.sDecodeQ ++ s.c2s)
    rw [hl]; simp
  case spOpen q dq c2s' hp hn =>
    intro c' hc' t' ht' hseq
    have hup := hp.up_eq hG
    change PU _ _ _ (vk _ (dq ++ c2s')) _
    rcases List.mem_append.1 ht' with ht' | ht'
    · have old := h c' hc' t' ht' hseq
      rw [hup, vk_cons_nonmsg _ rfl] at old
      exact old
    · simp only [List.mem_singleton] at ht'
      subst ht'
      have hq : c'.seq = q := hseq.symm
      have hnot : c'.seq ∉ sseqs s := by
        rw [hq]; intro hm
        obtain ⟨t, ht, hts⟩ := of_mem_sseqs hm
        exact getS_none hn t ht hts
      obtain ⟨hph, -, hk, htk⟩ := hN c' hc' hnot
      have hw := ((hL.c c' hc').1.opening hph).2.2.2
      have hv : vk q (dq ++ c2s') = [] := by
        apply vk_all_nonmsg
        intro k hk'
        have : k ∈ kindsOf c'.seq (up s) := by
          rw [hq, hup]
          exact (kindsOf_sublist q (List.sublist_cons_self _ _)).subset hk'
        rw [hk k this]; rfl
      rw [hw]
      show PU _ true ([] ++ [] ++ tasksOf q s.sStreamQ) (vk q (dq ++ c2s')) []
      rw [hv, ← hq, htk]
      exact ⟨List.prefix_rfl, fun _ => ⟨List.prefix_rfl, fun _ => rfl⟩⟩
  case spClose q dq c2s' hp =>
    refine invU_same h rfl (hc_id s _) (ht_updS ?_) (fun t _ _ => ?_) (fun _ _ => rfl)
    · intro t _ _
      split
      · exact ⟨rfl, fun hh => (by cases hh), by rw [stop_delivered, stop_events]⟩
      · exact ⟨rfl, id, rfl⟩
    · change vk _ (dq ++ c2s') = _
      rw [hp.up_eq hG, vk_cons_nonmsg _ rfl]
  case spSkip f dq c2s' hp hk =>
    refine invU_same h rfl (hc_id s _) (ht_id s) (fun t ht hin => ?_) (fun _ _ => rfl)
    change vk _ (dq ++ c2s') = _
    rw [hp.up_eq hG]
    rcases hk with hk | ⟨m, _, hk | ⟨t0, ht0, hin0⟩⟩
    · rw [vk_cons_nonmsg _ (by rw [hk]; rfl)]
    · rw [vk_cons_ne _ (fun he => getS_none hk t ht he.symm)]
    · rw [vk_cons_ne _ (fun he => ?_)]
      rw [getS_unique hQ.ns ht0 ht he.symm] at hin
      exact bft hin0 hin
  case spMsgD q m dq c2s' t0 hp ht0 hin hd =>
    intro c' hc' t' ht' hseq
    have hup := hp.up_eq hG
    have hq0 : s.sStreamQ = [] := (hG.sDirQ hd).1
    change PU _ _ (_ ++ tasksOf _ s.sStreamQ) (vk _ (dq ++ c2s')) _
    rcases mem_updS ht' with ⟨h1, h2⟩ | ⟨t1, ht1, hq1, rfl⟩
    · have old := h c' hc' t' h1 hseq
      rw [hup, vk_cons_ne _ (fun he => h2 he.symm)] at old
      exact old
    · have old := h c' hc' t1 ht1 hseq
      have e1 := getS_unique hQ.ns ht0 ht1 hq1
      rw [hup, hq1, vk_cons_msg, e1, hin] at old
      rw [hq0] at old ⊢
      have ht := trigger_hist t1.e m (hL.s t1 ht1).1.1
      show PU _ _ ((t1.e.trigger m).delivered ++ (t1.e.trigger m).events ++ tasksOf t1.seq []) (vk t1.seq (dq ++ c2s')) _
      rw [ht, hq1, e1]
      have := PU_take (inT := t0.inTable) m old
      simpa [tasksOf] using this
  case spMsgQ q m dq c2s' t0 hp ht0 hin hd =>
    intro c' hc' t' ht' hseq
    have hup := hp.up_eq hG
    change PU _ _ (_ ++ tasksOf _ (s.sStreamQ ++ [(q, m)])) (vk _ (dq ++ c2s')) _
    by_cases hq1 : t'.seq = q
    · have old := h c' hc' t' ht' hseq
      have e1 := getS_unique hQ.ns ht0 ht' hq1
      rw [hup, hq1, vk_cons_msg, e1, hin] at old
      rw [tasksOf_snoc_eq _ hq1.symm, ← List.append_assoc, hq1, e1]
      have := PU_take (inT := t0.inTable) m old
      rw [← (getS_some ht0).2]
      rw [← (getS_some ht0).2] at this
      exact this
    · have old := h c' hc' t' ht' hseq
      rw [hup, vk_cons_ne _ (fun he => hq1 he.symm)] at old
      rw [tasksOf_snoc_ne _ (fun he => hq1 he.symm)]
      exact old
  case spOther q dq c2s' hp =>
    refine invU_same h rfl (hc_id s _) (ht_id s) (fun t _ _ => ?_) (fun _ _ => rfl)
    change vk _ (dq ++ c2s') = _
    rw [hp.up_eq hG, vk_cons_nonmsg _ rfl]
  case sStreamRun tk rest hl =>
    intro c' hc' t' ht' hseq
    change PU _ _ (_ ++ tasksOf _ rest) _ _
    rcases mem_updS ht' with ⟨h1, h2⟩ | ⟨t1, ht1, hq1, rfl⟩
    · have old := h c' hc' t' h1 hseq
      rw [hl, tasksOf_cons_ne _ (fun he => h2 he.symm)] at old
      exact old
    · have old := h c' hc' t1 ht1 hseq
      rw [hl, tasksOf_cons_eq _ hq1.symm] at old
      have ht := trigger_hist t1.e tk.2 (hL.s t1 ht1).1.1
      show PU _ _ ((t1.e.trigger tk.2).delivered ++ (t1.e.trigger tk.2).events ++ tasksOf t1.seq rest) _ _
      rw [ht, List.append_assoc (t1.e.delivered ++ t1.e.events)]
      exact old
  case sEnd => exact invU_same h rfl (hc_id s _) (ht_id s) (fun _ _ _ => rfl) (fun _ _ => rfl)
  case sFinal he hc hd hq =>
    refine invU_same h rfl (hc_id s _) ?_ (fun _ _ _ => rfl) (fun _ _ => rfl)
    intro t' ht'
    obtain ⟨t, ht, rfl⟩ := List.mem_map.1 ht'
    refine ⟨t, ht, ?_⟩
    split
    · exact ⟨rfl, id, by rw [stop_delivered, stop_events]⟩
    · exact ⟨rfl, id, rfl⟩
  case sWriteErr q t ht =>
    exact invU_same h rfl (hc_id s _) (ht_updS (by intro t _ _; exact ⟨rfl, id, rfl⟩)) (fun _ _ _ => rfl) (fun _ _ => rfl)
  case sWriteOk q m t ht _ _ _ =>
    exact invU_same h rfl (hc_id s _) (ht_updS (by intro t _ _; exact ⟨rfl, id, rfl⟩)) (fun _ _ _ => rfl) (fun _ _ => rfl)
  case sRead q t e' ht hr =>
    refine invU_same h rfl (hc_id s _) (ht_updS ?_) (fun _ _ _ => rfl) (fun _ _ => rfl)
    intro t1 ht1 hq1
    rw [getS_unique hQ.ns ht ht1 hq1]
    exact ⟨rfl, id, (read_hist _ _ hr).1⟩
  case sExit q t ht =>
    exact invU_same h rfl (hc_id s _) (ht_updS (by intro t _ _; exact ⟨rfl, id, rfl⟩)) (fun _ _ _ => rfl) (fun _ _ => rfl)
  case cutLink kc ks hc =>
    intro c' hc' t' ht' hseq
    have old := h c' hc' t' ht' hseq
    refine PU_cutoff old ?_
    apply vk_prefix
    exact (List.prefix_append_right_inj _).2 (List.take_prefix _ _)


/-! ### D: server → client, stream by stream -/

/-- the opening call of `c` is still registered and the reader is still running: frames for `c` are processed -/
def liveC (shut : Bool) (c : CStream) : Bool := c.pend == .openCall && !shut

theorem liveC_iff {shut : Bool} {c : CStream} : liveC shut c = true ↔ c.pend = .openCall ∧ shut = false := by
  unfold liveC; simp

/-- the frames for a live client stream that are under way: in the opening phase the acknowledgement
    comes first (or everything was lost), then only stream messages -/
def Shape (ph : Phase) (ks : List FKind) : Prop :=
  match ph with
  | .streaming => ∀ k ∈ ks, k.isMsg = true
  | .opening => ks = [] ∨ ∃ r, ks = .ack :: r ∧ ∀ k ∈ r, k.isMsg = true

theorem Shape.prefix {ph : Phase} {ks ks' : List FKind} (h : Shape ph ks) (hp : ks' <+: ks) : Shape ph ks' := by
  cases ph with
  | streaming => exact fun k hk => h k (hp.subset hk)
  | opening =>
    rcases h with rfl | ⟨r, rfl, hr⟩
    · left; exact List.prefix_nil.1 hp
    · cases ks' with
      | nil => left; rfl
      | cons a l =>
        right
        obtain ⟨z, hz⟩ := hp
        simp only [List.cons_append, List.cons.injEq] at hz
        obtain ⟨rfl, hz⟩ := hz
        exact ⟨l, rfl, fun k hk => hr k (by rw [← hz]; exact List.mem_append_left _ hk)⟩

theorem Shape.snoc_msg {ph : Phase} {ks : List FKind} (m : Nat) (h : Shape ph ks) (hne : ph = .opening → ks ≠ []) :
    Shape ph (ks ++ [.msg m]) := by
  cases ph with
  | streaming =>
    intro k hk
    rcases List.mem_append.1 hk with hk | hk
    · exact h k hk
    · simp only [List.mem_singleton] at hk; subst hk; rfl
  | opening =>
    rcases h with rfl | ⟨r, rfl, hr⟩
    · exact absurd rfl (hne rfl)
    · right
      refine ⟨r ++ [.msg m], rfl, fun k hk => ?_⟩
      rcases List.mem_append.1 hk with hk | hk
      · exact hr k hk
      · simp only [List.mem_singleton] at hk; subst hk; rfl

/-- per client stream -/
def DC (shut : Bool) (dnl : List Frame) (cq : List (Nat × Nat)) (c : CStream) : Prop :=
  (c.phase = .opening → tasksOf c.seq cq = []) ∧ (liveC shut c = true → Shape c.phase (kindsOf c.seq dnl))

/-- per pair of stream ends -/
def DP (cut shut : Bool) (dnl : List Frame) (cq : List (Nat × Nat)) (c : CStream) (t : SStream) : Prop :=
  PU cut (liveC shut c) (c.e.delivered ++ c.e.events ++ tasksOf c.seq cq) (vk c.seq dnl) t.e.written ∧
  (liveC shut c = true → c.phase = .opening → cut = false → kindsOf c.seq dnl ≠ [])

def InvD (s : State) : Prop :=
  ∀ c ∈ s.cs, DC s.cShutdown (dn s) s.cStreamQ c ∧ ∀ t ∈ s.ss, t.seq = c.seq → DP s.cut s.cShutdown (dn s) s.cStreamQ c t

theorem invD_init (cfg : Cfg) : InvD (init cfg) := fun _ h => (by cases h)

theorem PU_dead {cut : Bool} {live : Bool} {B vals vals' W : List Nat} (h : PU cut live B vals W) : PU cut false B vals' W :=
  ⟨h.1, fun hh => (by cases hh)⟩

/-- a transition that changes nothing the server → client bookkeeping of a live stream depends on -/
theorem invD_same {s s' : State} (h : InvD s) (hcut : s'.cut = s.cut) (hsh : s'.cShutdown = s.cShutdown)
    (hc : ∀ c' ∈ s'.cs, ∃ c ∈ s.cs, c.seq = c'.seq ∧ c'.phase = c.phase ∧ (c'.pend = .openCall → c.pend = .openCall) ∧
      c'.e.delivered ++ c'.e.events = c.e.delivered ++ c.e.events)
    (ht : ∀ t' ∈ s'.ss, ∃ t ∈ s.ss, t.seq = t'.seq ∧ t'.e.written = t.e.written)
    (hdn : ∀ c ∈ s.cs, liveC s.cShutdown c = true → kindsOf c.seq (dn s') = kindsOf c.seq (dn s))
    (hcq : ∀ c ∈ s.cs, tasksOf c.seq s'.cStreamQ = tasksOf c.seq s.cStreamQ) : InvD s' := by
  intro c' hc'
  obtain ⟨c, hcm, hcs, hcp, hcl, hce⟩ := hc c' hc'
  obtain ⟨⟨d1, d2⟩, d3⟩ := h c hcm
  have hlive : liveC s'.cShutdown c' = true → liveC s.cShutdown c = true := by
    intro hl
    rw [liveC_iff] at hl ⊢
    exact ⟨hcl hl.1, hsh ▸ hl.2⟩
  refine ⟨⟨?_, ?_⟩, ?_⟩
  · intro hp
    rw [← hcs, hcq c hcm]
    exact d1 (hcp ▸ hp)
  · intro hl
    rw [← hcs, hdn c hcm (hlive hl), hcp]
    exact d2 (hlive hl)
  · intro t' ht' hseq
    obtain ⟨t, htm, hts, htw⟩ := ht t' ht'
    obtain ⟨⟨p1, p2⟩, p3⟩ := d3 t htm (hts.trans (hseq.trans hcs.symm))
    unfold DP PU
    rw [← hcs, hcq c hcm, hce, htw, hcut]
    refine ⟨⟨p1, ?_⟩, ?_⟩
    · intro hl
      unfold vk
      rw [hdn c hcm (hlive hl)]
      exact p2 (hlive hl)
    · intro hl hp hc0
      rw [hdn c hcm (hlive hl)]
      exact p3 (hlive hl) (hcp ▸ hp) hc0

theorem dc_id (s : State) : ∀ c' ∈ s.cs, ∃ c ∈ s.cs, c.seq = c'.seq ∧ c'.phase = c.phase ∧
    (c'.pend = .openCall → c.pend = .openCall) ∧ c'.e.delivered ++ c'.e.events = c.e.delivered ++ c.e.events :=
  fun c' hc' => ⟨c', hc', rfl, rfl, id, rfl⟩

theorem dc_updC {q : Nat} {g : CStream → CStream} {cs : List CStream}
    (hg : ∀ c ∈ cs, c.seq = q → (g c).seq = c.seq ∧ (g c).phase = c.phase ∧ ((g c).pend = .openCall → c.pend = .openCall) ∧
      (g c).e.delivered ++ (g c).e.events = c.e.delivered ++ c.e.events) :
    ∀ c' ∈ updC q g cs, ∃ c ∈ cs, c.seq = c'.seq ∧ c'.phase = c.phase ∧ (c'.pend = .openCall → c.pend = .openCall) ∧
      c'.e.delivered ++ c'.e.events = c.e.delivered ++ c.e.events := by
  intro c' hc'
  rcases mem_updC hc' with ⟨h1, _⟩ | ⟨c, hc, hq, rfl⟩
  · exact ⟨c', h1, rfl, rfl, id, rfl⟩
  · obtain ⟨g1, g2, g3, g4⟩ := hg c hc hq
    exact ⟨c, hc, g1.symm, g2, g3, g4⟩

theorem dt_id (s : State) : ∀ t' ∈ s.ss, ∃ t ∈ s.ss, t.seq = t'.seq ∧ t'.e.written = t.e.written :=
  fun t' ht' => ⟨t', ht', rfl, rfl⟩

theorem dt_updS {q : Nat} {g : SStream → SStream} {ss : List SStream}
    (hg : ∀ t ∈ ss, t.seq = q → (g t).seq = t.seq ∧ (g t).e.written = t.e.written) :
    ∀ t' ∈ updS q g ss, ∃ t ∈ ss, t.seq = t'.seq ∧ t'.e.written = t.e.written := by
  intro t' ht'
  rcases mem_updS ht' with ⟨h1, _⟩ | ⟨t, ht, hq, rfl⟩
  · exact ⟨t', h1, rfl, rfl⟩
  · exact ⟨t, ht, (hg t ht hq).1.symm, (hg t ht hq).2⟩

theorem kindsOf_sentS_ne (s : State) {f : Frame} {q : Nat} (h : f.seq ≠ q) : kindsOf q (sentS s f) = [] := by
  unfold sentS; split
  · rfl
  · exact kindsOf_single_ne h


theorem trigC_pend (v : Nat) (c : CStream) : (trigC v c).pend = c.pend := by
  unfold trigC; split <;> rfl

theorem liveC_congr {shut : Bool} {c c' : CStream} (h : c'.pend = c.pend) : liveC shut c' = liveC shut c := by
  unfold liveC; rw [h]

theorem kindsOf_sentS_eq (s : State) {f : Frame} {q : Nat} (ht : s.sTornDown = false) (h : f.seq = q) :
    (s.cut = true ∧ kindsOf q (sentS s f) = []) ∨ (s.cut = false ∧ kindsOf q (sentS s f) = [f.kind]) := by
  rcases sentS_cases s f ht with ⟨h1, h2⟩ | ⟨h1, h2⟩
  · exact Or.inl ⟨h1, by rw [h2]; rfl⟩
  · exact Or.inr ⟨h1, by rw [h2]; exact kindsOf_single_eq h⟩

theorem invD_tr (hf : allFlags = true) {s s' : State} (hG : InvG s) (hL : InvL s) (hQ : InvQ s) (hO : InvO s)
    (hN : InvN s) (h : InvD s) (t : Tr s s') : InvD s' := by
  cases t
  case cOpen hsh =>
    intro c' hc'
    rcases List.mem_append.1 hc' with hc' | hc'
    · exact h c' hc'
    · simp only [List.mem_singleton] at hc'
      subst hc'
      have hk : kindsOf s.nextSeq (dn s) = [] := by
        apply kindsOf_eq_nil.2
        intro f hf'
        have := hQ.fdn f hf'
        omega
      refine ⟨⟨fun _ => ?_, fun _ => Or.inl hk⟩, fun t' ht' hseq => ?_⟩
      · apply tasksOf_eq_nil
        intro t ht
        have := hQ.tc t ht
        show t.1 ≠ s.nextSeq
        omega
      · exfalso
        have := hQ.clt _ (hQ.sc _ (mem_sseqs ht'))
        have he' : t'.seq = s.nextSeq := hseq
        omega
  case cWriteErr q c hc ho hcl =>
    exact invD_same h rfl rfl (dc_updC (by intro c _ _; exact ⟨rfl, rfl, id, rfl⟩)) (dt_id s) (fun _ _ _ => rfl) (fun _ _ => rfl)
  case cWriteOk q m c hc ho hcl hsh =>
    exact invD_same h rfl rfl (dc_updC (by intro c _ _; exact ⟨rfl, rfl, id, rfl⟩)) (dt_id s) (fun _ _ _ => rfl) (fun _ _ => rfl)
  case cRead q c e' hc ho hr =>
    refine invD_same h rfl rfl (dc_updC ?_) (dt_id s) (fun _ _ _ => rfl) (fun _ _ => rfl)
    intro c1 hc1 hq1
    rw [getC_unique hQ.nc hc hc1 hq1]
    exact ⟨rfl, rfl, id, (read_hist _ _ hr).1⟩
  case cCloseShut q c hc ho hsh =>
    exact invD_same h rfl rfl (dc_updC (by intro c _ _; exact ⟨rfl, rfl, id, by rw [stop_delivered, stop_events]⟩)) (dt_id s)
      (fun _ _ _ => rfl) (fun _ _ => rfl)
  case cCloseSend q c hc ho hsh =>
    exact invD_same h rfl rfl
      (dc_updC (by intro c _ _; exact ⟨rfl, rfl, fun hh => (by cases hh), by rw [stop_delivered, stop_events]⟩)) (dt_id s)
      (fun _ _ _ => rfl) (fun _ _ => rfl)
  case cCall hsh => exact invD_same h rfl rfl (dc_id s) (dt_id s) (fun _ _ _ => rfl) (fun _ _ => rfl)
  case cRecvQ f rest hsh hl hd =>
    refine invD_same h rfl rfl (dc_id s) (dt_id s) (fun c _ _ => ?_) (fun _ _ => rfl)
    change kindsOf _ ((s.cDecodeQ ++ [f]) ++ rest) = kindsOf _ (s.cDecodeQ ++ s.s2c)
    rw [hl]; simp
  case cpSkip f dq s2c' hp hk =>
    refine invD_same h rfl rfl (dc_id s) (dt_id s) (fun c hc hl => ?_) (fun _ _ => rfl)
    change kindsOf _ (dq ++ s2c') = _
    rw [hp.dn_eq hG]
    rw [liveC_iff] at hl
    rcases hk with hk | ⟨c0, hc0, hp0⟩
    · exact bft hl.2 hk
    · rw [kindsOf_cons_ne _ (fun he => ?_)]
      rw [getC_unique hQ.nc hc0 hc he.symm, hp0] at hl
      cases hl.1
  case cpCloseDone f dq s2c' c0 hp hsh hc0 hpe =>
    refine invD_same h rfl rfl (dc_updC (by intro c _ _; exact ⟨rfl, rfl, fun hh => (by cases hh), rfl⟩)) (dt_id s)
      (fun c hc hl => ?_) (fun _ _ => rfl)
    change kindsOf _ (dq ++ s2c') = _
    rw [hp.dn_eq hG]
    rw [liveC_iff] at hl
    rw [kindsOf_cons_ne _ (fun he => ?_)]
    rw [getC_unique hQ.nc hc0 hc he.symm, hpe] at hl
    cases hl.1
  case cpUnary f dq s2c' hp hsh hc0 =>
    refine invD_same h rfl rfl (dc_id s) (dt_id s) (fun c hc hl => ?_) (fun _ _ => rfl)
    change kindsOf _ (dq ++ s2c') = _
    rw [hp.dn_eq hG, kindsOf_cons_ne _ (fun he => getC_none hc0 c hc he.symm)]
  case cpOpened f dq s2c' c0 hp hsh hc0 hpe hph =>
    have hdn := hp.dn_eq hG
    intro c' hc'
    change DC _ (dq ++ s2c') _ _ ∧ ∀ t ∈ s.ss, _ → DP _ _ (dq ++ s2c') _ _ _
    rcases mem_updC hc' with ⟨h1, h2⟩ | ⟨c1, hc1, hq1, rfl⟩
    · have old := h c' h1
      unfold DC DP vk at old ⊢
      rw [hdn, kindsOf_cons_ne _ (fun he => h2 he.symm)] at old
      exact old
    · have e1 := getC_unique hQ.nc hc0 hc1 hq1
      subst e1
      obtain ⟨⟨d1, d2⟩, d3⟩ := h c1 hc1
      have hlive : liveC s.cShutdown c1 = true := liveC_iff.2 ⟨hpe, hsh⟩
      have hk : kindsOf c1.seq (dn s) = f.kind :: kindsOf c1.seq (dq ++ s2c') := by rw [hdn, kindsOf_cons_eq _ hq1.symm]
      have hsh1 := d2 hlive
      rw [hph, hk] at hsh1
      rcases hsh1 with hnil | ⟨r, hr, hmsg⟩
      · cases hnil
      · simp only [List.cons.injEq] at hr
        obtain ⟨hfk, hr⟩ := hr
        refine ⟨⟨fun hh => (by cases hh), fun _ => ?_⟩, fun t' ht' hseq => ?_⟩
        · show ∀ k ∈ kindsOf c1.seq (dq ++ s2c'), k.isMsg = true
          rw [hr]; exact hmsg
        · obtain ⟨p1, _⟩ := d3 t' ht' hseq
          refine ⟨?_, fun _ hh => (by cases hh)⟩
          have : vk c1.seq (dn s) = vk c1.seq (dq ++ s2c') := by
            unfold vk; rw [hk, hfk]; rfl
          rw [this] at p1
          exact p1
  case cpMsgD f dq s2c' c0 hp hsh hc0 hpe hph hd =>
    have hdn := hp.dn_eq hG
    have hq0 : s.cStreamQ = [] := (hG.cDirQ hd).1
    intro c' hc'
    change DC _ (dq ++ s2c') _ _ ∧ ∀ t ∈ s.ss, _ → DP _ _ (dq ++ s2c') _ _ _
    rcases mem_updC hc' with ⟨h1, h2⟩ | ⟨c1, hc1, hq1, rfl⟩
    · have old := h c' h1
      unfold DC DP vk at old ⊢
      rw [hdn, kindsOf_cons_ne _ (fun he => h2 he.symm)] at old
      exact old
    · have e1 := getC_unique hQ.nc hc0 hc1 hq1
      subst e1
      obtain ⟨⟨d1, d2⟩, d3⟩ := h c1 hc1
      have hlive : liveC s.cShutdown c1 = true := liveC_iff.2 ⟨hpe, hsh⟩
      have hk : kindsOf c1.seq (dn s) = f.kind :: kindsOf c1.seq (dq ++ s2c') := by rw [hdn, kindsOf_cons_eq _ hq1.symm]
      have hsh1 := d2 hlive
      rw [hph, hk] at hsh1
      obtain ⟨m, hm⟩ := isMsg_iff.1 (hsh1 f.kind (List.mem_cons_self ..))
      have htr : trigC f.kind.value c1 = { c1 with e := c1.e.trigger m } := by
        unfold trigC; rw [hph, hm]; rfl
      rw [htr]
      refine ⟨⟨fun hh => ?_, fun _ => ?_⟩, fun t' ht' hseq => ?_⟩
      · have : c1.phase = .opening := hh
        rw [hph] at this; cases this
      · show Shape c1.phase (kindsOf c1.seq (dq ++ s2c'))
        rw [hph]
        exact fun k hk' => hsh1 k (List.mem_cons_of_mem _ hk')
      · obtain ⟨p1, _⟩ := d3 t' ht' hseq
        refine ⟨?_, fun _ hh => ?_⟩
        · have hv : vk c1.seq (dn s) = m :: vk c1.seq (dq ++ s2c') := by
            unfold vk; rw [hk, hm]; rfl
          rw [hv, hlive, hq0] at p1
          have := PU_take (inT := true) m p1
          have ht := trigger_hist c1.e m (hL.c c1 hc1).1.endOk
          show PU _ (liveC s.cShutdown c1) ((c1.e.trigger m).delivered ++ (c1.e.trigger m).events ++ tasksOf c1.seq s.cStreamQ) _ _
          rw [ht, hlive, hq0]
          simpa [tasksOf] using this
        · have : c1.phase = .opening := hh
          rw [hph] at this; cases this
  case cpMsgQ f dq s2c' c0 hp hsh hc0 hpe hph hd =>
    have hdn := hp.dn_eq hG
    intro c' hc'
    change DC _ (dq ++ s2c') (s.cStreamQ ++ [(f.seq, f.kind.value)]) _ ∧
      ∀ t ∈ s.ss, _ → DP _ _ (dq ++ s2c') (s.cStreamQ ++ [(f.seq, f.kind.value)]) _ _
    by_cases hq1 : c'.seq = f.seq
    · have e1 := getC_unique hQ.nc hc0 hc' hq1
      subst e1
      obtain ⟨⟨d1, d2⟩, d3⟩ := h c' hc'
      have hlive : liveC s.cShutdown c' = true := liveC_iff.2 ⟨hpe, hsh⟩
      have hk : kindsOf c'.seq (dn s) = f.kind :: kindsOf c'.seq (dq ++ s2c') := by rw [hdn, kindsOf_cons_eq _ hq1.symm]
      have hsh1 := d2 hlive
      rw [hph, hk] at hsh1
      obtain ⟨m, hm⟩ := isMsg_iff.1 (hsh1 f.kind (List.mem_cons_self ..))
      refine ⟨⟨fun hh => ?_, fun _ => ?_⟩, fun t' ht' hseq => ?_⟩
      · rw [hph] at hh; cases hh
      · rw [hph]
        exact fun k hk' => hsh1 k (List.mem_cons_of_mem _ hk')
      · obtain ⟨p1, _⟩ := d3 t' ht' hseq
        refine ⟨?_, fun _ hh => ?_⟩
        · have hv : vk c'.seq (dn s) = m :: vk c'.seq (dq ++ s2c') := by
            unfold vk; rw [hk, hm]; rfl
          rw [hv, hlive] at p1
          have := PU_take (inT := true) m p1
          rw [tasksOf_snoc_eq _ hq1.symm, ← List.append_assoc, hlive, hm]
          exact this
        · rw [hph] at hh; cases hh
    · have old := h c' hc'
      unfold DC DP vk at old ⊢
      rw [hdn, kindsOf_cons_ne _ (fun he => hq1 he.symm)] at old
      rw [tasksOf_snoc_ne _ (fun he => hq1 he.symm)]
      exact old
  case cStreamRun tk rest hl =>
    intro c' hc'
    change DC _ _ rest _ ∧ ∀ t ∈ s.ss, _ → DP _ _ _ rest _ _
    rcases mem_updC hc' with ⟨h1, h2⟩ | ⟨c1, hc1, hq1, rfl⟩
    · have old := h c' h1
      unfold DC DP at old ⊢
      rw [hl, tasksOf_cons_ne _ (fun he => h2 he.symm)] at old
      exact old
    · obtain ⟨⟨d1, d2⟩, d3⟩ := h c1 hc1
      have htk : tasksOf c1.seq s.cStreamQ = tk.2 :: tasksOf c1.seq rest := by rw [hl, tasksOf_cons_eq _ hq1.symm]
      have hph : c1.phase = .streaming := by
        cases hp : c1.phase with
        | streaming => rfl
        | opening => have := d1 hp; rw [htk] at this; cases this
      have htr : trigC tk.2 c1 = { c1 with e := c1.e.trigger tk.2 } := by
        unfold trigC; rw [hph]; rfl
      rw [htr]
      refine ⟨⟨fun hh => ?_, d2⟩, fun t' ht' hseq => ?_⟩
      · have : c1.phase = .opening := hh
        rw [hph] at this; cases this
      · obtain ⟨p1, p2⟩ := d3 t' ht' hseq
        refine ⟨?_, p2⟩
        have ht := trigger_hist c1.e tk.2 (hL.c c1 hc1).1.endOk
        show PU _ (liveC s.cShutdown c1) ((c1.e.trigger tk.2).delivered ++ (c1.e.trigger tk.2).events ++ tasksOf c1.seq rest) _ _
        rw [ht, List.append_assoc (c1.e.delivered ++ c1.e.events)]
        rw [htk] at p1
        exact p1
  case cSweep hsh hcut h1 h2 =>
    intro c' hc'
    obtain ⟨c, hc, rfl⟩ := List.mem_map.1 hc'
    obtain ⟨f1, f2, f3, f4, f5, f6⟩ := sweepC_fields hf c
    obtain ⟨⟨d1, d2⟩, d3⟩ := h c hc
    have hde : (sweepC c).e.delivered ++ (sweepC c).e.events = c.e.delivered ++ c.e.events := by
      rw [f6]; split
      · rw [stop_delivered, stop_events]
      · rfl
    have hdead : liveC true (sweepC c) = false := by unfold liveC; simp
    refine ⟨⟨fun hh => ?_, fun hh => ?_⟩, fun t' ht' hseq => ?_⟩
    · rw [f1]; exact d1 (f2 ▸ hh)
    · have hh' : liveC true (sweepC c) = true := hh
      rw [hdead] at hh'; cases hh'
    · obtain ⟨p1, _⟩ := d3 t' ht' (hseq.trans f1)
      show PU _ (liveC true (sweepC c)) _ _ _ ∧ (liveC true (sweepC c) = true → _)
      rw [hdead, hde, f1]
      exact ⟨PU_dead p1, fun hh => (by cases hh)⟩
  case sRecvQ f rest he hl hd => exact invD_same h rfl rfl (dc_id s) (dt_id s) (fun _ _ _ => rfl) (fun _ _ => rfl)
  case spOpen q dq c2s' hp hn =>
    have hnt := hp.notTorn hG
    intro c' hc'
    change DC _ (s.cDecodeQ ++ pushS s _) _ _ ∧ ∀ t ∈ s.ss ++ [_], _ → DP _ _ (s.cDecodeQ ++ pushS s _) _ _ _
    rw [dn_push]
    by_cases hq1 : c'.seq = q
    · have hnot : c'.seq ∉ sseqs s := by
        rw [hq1]; intro hm
        obtain ⟨t, ht, hts⟩ := of_mem_sseqs hm
        exact getS_none hn t ht hts
      obtain ⟨hph, hk, -, -⟩ := hN c' hc' hnot
      obtain ⟨⟨d1, d2⟩, d3⟩ := h c' hc'
      obtain ⟨o1, o2, -, -⟩ := (hL.c c' hc').1.opening hph
      have hkq := kindsOf_sentS_eq s (f := ⟨q, .ack⟩) hnt hq1.symm
      refine ⟨⟨d1, fun _ => ?_⟩, fun t' ht' hseq => ?_⟩
      · rw [hph, kindsOf_append, hk, List.nil_append]
        rcases hkq with ⟨_, hh⟩ | ⟨_, hh⟩
        · rw [hh]; exact Or.inl rfl
        · rw [hh]; exact Or.inr ⟨[], rfl, fun _ hk' => (by cases hk')⟩
      · rcases List.mem_append.1 ht' with ht' | ht'
        · exact absurd (hseq.trans hq1) (getS_none hn t' ht')
        · simp only [List.mem_singleton] at ht'
          subst ht'
          have hv : vk c'.seq (dn s ++ sentS s ⟨q, .ack⟩) = [] := by
            apply vk_all_nonmsg
            intro k hk'
            rw [kindsOf_append, hk, List.nil_append] at hk'
            rcases hkq with ⟨_, hh⟩ | ⟨_, hh⟩
            · rw [hh] at hk'; cases hk'
            · rw [hh] at hk'; simp only [List.mem_singleton] at hk'; rw [hk']; rfl
          refine ⟨?_, fun _ _ hc0 => ?_⟩
          · rw [hv, o1, o2, d1 hph]
            exact ⟨List.prefix_rfl, fun _ => ⟨List.prefix_rfl, fun _ => rfl⟩⟩
          · rw [kindsOf_append, hk, List.nil_append]
            rcases hkq with ⟨hh, _⟩ | ⟨_, hh⟩
            · exact bft hc0 hh
            · rw [hh]; exact fun hx => (by cases hx)
    · have old := h c' hc'
      have hks : kindsOf c'.seq (dn s ++ sentS s ⟨q, .ack⟩) = kindsOf c'.seq (dn s) := by
        rw [kindsOf_append, kindsOf_sentS_ne s (fun he => hq1 he.symm), List.append_nil]
      unfold DC DP vk at old ⊢
      rw [hks]
      refine ⟨old.1, fun t' ht' hseq => ?_⟩
      rcases List.mem_append.1 ht' with ht' | ht'
      · exact old.2 t' ht' hseq
      · simp only [List.mem_singleton] at ht'
        subst ht'
        exact absurd hseq.symm hq1
  case spClose q dq c2s' hp =>
    refine invD_same h rfl rfl (dc_id s) (dt_updS ?_) (fun c hc hl => ?_) (fun _ _ => rfl)
    · intro t _ _
      split
      · exact ⟨rfl, stop_written _⟩
      · exact ⟨rfl, rfl⟩
    · change kindsOf _ (s.cDecodeQ ++ pushS s _) = _
      rw [dn_push, kindsOf_append, kindsOf_sentS_ne s (fun he => ?_), List.append_nil]
      rw [liveC_iff] at hl
      exact hO.closeP _ (hp.mem_up hG) rfl c hc he.symm hl.1
  case spSkip f dq c2s' hp hk => exact invD_same h rfl rfl (dc_id s) (dt_id s) (fun _ _ _ => rfl) (fun _ _ => rfl)
  case spMsgD q m dq c2s' t0 hp ht0 hin hd =>
    exact invD_same h rfl rfl (dc_id s) (dt_updS (by intro t _ _; exact ⟨rfl, trigger_written _ _⟩)) (fun _ _ _ => rfl) (fun _ _ => rfl)
  case spMsgQ q m dq c2s' t0 hp ht0 hin hd =>
    exact invD_same h rfl rfl (dc_id s) (dt_id s) (fun _ _ _ => rfl) (fun _ _ => rfl)
  case spOther q dq c2s' hp =>
    refine invD_same h rfl rfl (dc_id s) (dt_id s) (fun c hc hl => ?_) (fun _ _ => rfl)
    change kindsOf _ (s.cDecodeQ ++ pushS s _) = _
    rw [dn_push, kindsOf_append, kindsOf_sentS_ne s (fun he => ?_), List.append_nil]
    exact hO.otherP _ (hp.mem_up hG) rfl (he ▸ mem_cseqs hc)
  case sStreamRun tk rest hl =>
    exact invD_same h rfl rfl (dc_id s) (dt_updS (by intro t _ _; exact ⟨rfl, trigger_written _ _⟩)) (fun _ _ _ => rfl) (fun _ _ => rfl)
  case sEnd => exact invD_same h rfl rfl (dc_id s) (dt_id s) (fun _ _ _ => rfl) (fun _ _ => rfl)
  case sFinal he hc hd hq =>
    refine invD_same h rfl rfl (dc_id s) ?_ (fun _ _ _ => rfl) (fun _ _ => rfl)
    intro t' ht'
    obtain ⟨t, ht, rfl⟩ := List.mem_map.1 ht'
    refine ⟨t, ht, ?_⟩
    split
    · exact ⟨rfl, stop_written _⟩
    · exact ⟨rfl, rfl⟩
  case sWriteErr q t ht =>
    exact invD_same h rfl rfl (dc_id s) (dt_updS (by intro t _ _; exact ⟨rfl, rfl⟩)) (fun _ _ _ => rfl) (fun _ _ => rfl)
  case sRead q t e' ht hr =>
    refine invD_same h rfl rfl (dc_id s) (dt_updS ?_) (fun _ _ _ => rfl) (fun _ _ => rfl)
    intro t1 ht1 hq1
    rw [getS_unique hQ.ns ht ht1 hq1]
    exact ⟨rfl, (read_hist _ _ hr).2.2⟩
  case sExit q t ht =>
    exact invD_same h rfl rfl (dc_id s) (dt_updS (by intro t _ _; exact ⟨rfl, rfl⟩)) (fun _ _ _ => rfl) (fun _ _ => rfl)
  case sWriteOk q m t0 ht0 hst hcl hnt =>
    intro c' hc'
    change DC _ (s.cDecodeQ ++ pushS s _) _ _ ∧ ∀ t ∈ updS _ _ s.ss, _ → DP _ _ (s.cDecodeQ ++ pushS s _) _ _ _
    rw [dn_push]
    by_cases hq1 : c'.seq = q
    · obtain ⟨⟨d1, d2⟩, d3⟩ := h c' hc'
      have hkq := kindsOf_sentS_eq s (f := ⟨q, .msg m⟩) hnt hq1.symm
      have hp0 := d3 t0 (getS_some ht0).1 ((getS_some ht0).2.trans hq1.symm)
      refine ⟨⟨d1, fun hl => ?_⟩, fun t' ht' hseq => ?_⟩
      · rw [kindsOf_append]
        rcases hkq with ⟨_, hh⟩ | ⟨hc0, hh⟩
        · rw [hh, List.append_nil]; exact d2 hl
        · rw [hh]
          exact (d2 hl).snoc_msg m (fun hph => hp0.2 hl hph hc0)
      · rcases mem_updS ht' with ⟨_, h2⟩ | ⟨t1, ht1, hq2, rfl⟩
        · exact absurd (hseq.trans hq1) h2
        · obtain ⟨p1, p2⟩ := d3 t1 ht1 hseq
          refine ⟨?_, fun hl hph hc0 => ?_⟩
          · show PU _ _ _ _ (t1.e.written ++ [m])
            refine PU_write m p1 ?_
            rw [vk_append]
            rcases sentS_cases s ⟨q, .msg m⟩ hnt with ⟨g1, g2⟩ | ⟨g1, g2⟩
            · exact Or.inl ⟨g1, by rw [g2, vk_nil, List.append_nil]⟩
            · exact Or.inr ⟨g1, by rw [g2, hq1, vk_single_msg]⟩
          · rw [kindsOf_append]
            intro hx
            exact p2 hl hph hc0 (List.append_eq_nil_iff.1 hx).1
    · have old := h c' hc'
      have hks : kindsOf c'.seq (dn s ++ sentS s ⟨q, .msg m⟩) = kindsOf c'.seq (dn s) := by
        rw [kindsOf_append, kindsOf_sentS_ne s (fun he => hq1 he.symm), List.append_nil]
      unfold DC DP vk at old ⊢
      rw [hks]
      refine ⟨old.1, fun t' ht' hseq => ?_⟩
      rcases mem_updS ht' with ⟨h1, _⟩ | ⟨t1, ht1, hq2, rfl⟩
      · exact old.2 t' h1 hseq
      · exact absurd (hseq.symm.trans hq2) hq1
  case cutLink kc ks hc =>
    intro c' hc'
    obtain ⟨⟨d1, d2⟩, d3⟩ := h c' hc'
    have hpre : (s.cDecodeQ ++ s.s2c.take ks) <+: dn s := (List.prefix_append_right_inj _).2 (List.take_prefix _ _)
    refine ⟨⟨d1, fun hl => (d2 hl).prefix (kindsOf_prefix _ hpre)⟩, fun t' ht' hseq => ?_⟩
    obtain ⟨p1, _⟩ := d3 t' ht' hseq
    exact ⟨PU_cutoff p1 (vk_prefix _ hpre), fun _ _ hh => (by cases hh)⟩

end RpcVerif.T
