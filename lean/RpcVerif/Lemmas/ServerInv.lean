import RpcVerif.Model.ServerInv
/-
  Proofs about S (one server connection): C08 (no peer input crashes the connection), `Inv` along
  every run, C04 (at most once / not phantom / complete at the end) and C05 (server half: dispatch,
  execution and response order).

  Structure: `step_shape` turns a step (under the five source facts `allFlags`) into one of the
  crash-free transitions `Tr`; `Base` is the invariant that needs no assumption on sequence numbers
  (C08, not-phantom, dispatch order); `Big` (⊇ `Base`, ⇒ `Inv`) and `PR` are inductive only when the
  dispatched jobs have distinct sequence numbers (`JN`, a consequence of `UniqueSeq`), because
  `updJob` rewrites every job carrying the given sequence number.

  `Inv` itself is not inductive: (a) without `UniqueSeq` the run
  feed r, feed r, decode, decode, enter 1 (r = {seq := 1, method := .unknown}) reaches wg = 1 with
  no unfinished job; (b) an unreachable state with `codecClosed` and a queued job request satisfies
  `Inv` but loses `fifo` on `.decode`. Hence `inv_step` is stated for `Big` with `UniqueSeq s'`.
  Every theorem `foo` that does not take the source facts as a hypothesis has a twin
  `foo_of_flags (hf : allFlags = true)`; `foo` discharges `hf` by `decide`.
-/
namespace RpcVerif.S
open RpcVerif

/-! ### the source facts -/

theorem allFlags_split (hf : allFlags = true) :
    Gen.serverLooksUpAlways = true ∧ Gen.replyAllocatedAlways = true ∧ Gen.openChecksSetStream = true ∧
    Gen.sendGuardsZeroReply = true ∧ Gen.teardownDrainsFirst = true := by
  unfold allFlags at hf
  simp only [Bool.and_eq_true] at hf
  obtain ⟨⟨⟨⟨h1, h2⟩, h3⟩, h4⟩, h5⟩ := hf
  exact ⟨h1, h2, h3, h4, h5⟩

/-! ### small vocabulary -/

/-- the job list after `updJob` -/
def upd (k : Nat) (f : Job → Job) (js : List Job) : List Job :=
  js.map fun j => if j.req.seq == k then f j else j

theorem updJob_eq (s : State) (k : Nat) (f : Job → Job) : updJob s k f = { s with jobs := upd k f s.jobs } := rfl

/-- `undispatched` as a function of the two fields it reads -/
def und (rd : Reader) (dq : List Req) : List Req :=
  (match rd with | .decoding r => [r] | _ => []) ++ dq

theorem undispatched_eq (s : State) : undispatched s = und s.reader s.decodeQ := rfl

/-- the frames already handed to `ServeRequest` -/
def dsp (reqs : List Req) (rd : Reader) (dq : List Req) : List Req :=
  reqs.take (reqs.length - (und rd dq).length)

def dispatched (s : State) : List Req := dsp s.reqs s.reader s.decodeQ

theorem dsp_eq {reqs : List Req} {rd : Reader} {dq : List Req} {D : List Req} (h : D ++ und rd dq = reqs) :
    dsp reqs rd dq = D := by
  subst h
  simp [dsp]

/-- how one decode step takes the next frame `r`: inline (direct I/O) or from the queue -/
def Dec (s : State) (r : Req) (rd : Reader) (dq : List Req) : Prop :=
  (s.cfg.directIO = true ∧ s.reader = .decoding r ∧ rd = .waiting ∧ dq = s.decodeQ) ∨
  (s.cfg.directIO = false ∧ s.decodeQ = r :: dq ∧ rd = s.reader)

/-- what `respond` appends for sequence number `k` -/
def Wrote (s : State) (k : Nat) (ps : List Resp) : Prop :=
  (s.codecClosed = true ∧ ps = []) ∨ (s.codecClosed = false ∧ ∃ p : Resp, ps = [p] ∧ p.seq = k)

/-- the transitions of S once the source facts have removed the crash branches -/
inductive Tr (s : State) : State → Prop
  | feedD (r : Req) : s.reader = .waiting → s.cfg.directIO = true →
      Tr s { s with reqs := s.reqs ++ [r], reader := .decoding r }
  | feedQ (r : Req) : s.reader = .waiting → s.cfg.directIO = false →
      Tr s { s with reqs := s.reqs ++ [r], decodeQ := s.decodeQ ++ [r] }
  | eof : s.reader = .waiting → Tr s { s with reader := .ended }
  | skip (r : Req) (rd : Reader) (dq : List Req) : Dec s r rd dq →
      (r.junk = true ∨ s.codecClosed = true ∨ dispatch r = .streamMsg) →
      Tr s { s with reader := rd, decodeQ := dq }
  | answer (r : Req) (rd : Reader) (dq : List Req) (p : Resp) : Dec s r rd dq →
      r.junk = false → s.codecClosed = false → dispatch r ≠ .streamMsg → dispatch r ≠ .job → p.seq = r.seq →
      Tr s { s with reader := rd, decodeQ := dq, resps := s.resps ++ [p] }
  | newJob (r : Req) (rd : Reader) (dq : List Req) : Dec s r rd dq →
      r.junk = false → s.codecClosed = false → dispatch r = .job →
      Tr s { s with reader := rd, decodeQ := dq, wg := s.wg + 1, jobs := s.jobs ++ [{ req := r }] }
  | early (k : Nat) (j : Job) (ps : List Resp) : getJob s k = some j → j.phase = .queued → jobTurn s k = true →
      (j.req.method.known = false ∨ ((flags j.req).noRequest ≠ Gen.noRequest ∧ j.req.badArgs = true)) →
      Wrote s j.req.seq ps →
      Tr s { s with jobs := upd k (fun j => { j with phase := .left }) s.jobs, resps := s.resps ++ ps, wg := s.wg - 1 }
  | enter (k : Nat) (j : Job) : getJob s k = some j → j.phase = .queued → jobTurn s k = true →
      j.req.method.known = true → ((flags j.req).noRequest = Gen.noRequest ∨ j.req.badArgs = false) →
      Tr s { s with jobs := upd k (fun j => { j with phase := .entered, ran := true }) s.jobs, execs := s.execs ++ [k] }
  | hret (k : Nat) (j : Job) (v : Verdict) : getJob s k = some j → j.phase = .entered →
      Tr s { s with jobs := upd k (fun j => { j with verdict := some v }) s.jobs }
  | leave (k : Nat) (j : Job) (ps : List Resp) : getJob s k = some j → j.phase = .entered →
      Wrote s j.req.seq ps →
      Tr s { s with jobs := upd k (fun j => { j with phase := .left }) s.jobs, resps := s.resps ++ ps, wg := s.wg - 1 }
  | drain : s.reader = .ended → s.decodeQ = [] → Tr s { s with reader := .drained }
  | wait : s.reader = .drained → s.wg = 0 → Tr s { s with reader := .waited }
  | closeCodec : s.reader = .waited → Tr s { s with reader := .served, codecClosed := true }

/-! ### `serveRequest`, `respond` -/

def mkResp (r : Req) (e : RespErr) (o : Bool) : Resp :=
  { seq := r.seq, err := e,
    reply := if (e == .none && (flags r).noResponse != Gen.noResponse) then (if o then .own else .empty)
             else if r.hasArgs then .echo else .empty }

theorem respond_closed (s : State) (r : Req) (e : RespErr) (o : Bool) (hc : s.codecClosed = true) :
    respond s r e o = s := by
  unfold respond; simp only [hc, ↓reduceIte]

theorem respond_open' (s : State) (r : Req) (e : RespErr) (o : Bool) (hc : s.codecClosed = false) :
    respond s r e o = { s with resps := s.resps ++ [mkResp r e o] } := by
  unfold respond mkResp; simp only [hc, Bool.false_eq_true, ↓reduceIte]

theorem respond_open (s : State) (r : Req) (e : RespErr) (o : Bool) (hc : s.codecClosed = false) :
    ∃ p : Resp, p.seq = r.seq ∧ respond s r e o = { s with resps := s.resps ++ [p] } :=
  ⟨mkResp r e o, rfl, respond_open' s r e o hc⟩

theorem State.with_resps_nil (s : State) : { s with resps := s.resps ++ [] } = s := by
  cases s; simp

theorem respond_wrote (s : State) (r : Req) (e : RespErr) (o : Bool) :
    ∃ ps, Wrote s r.seq ps ∧ respond s r e o = { s with resps := s.resps ++ ps } := by
  rcases Bool.eq_false_or_eq_true s.codecClosed with hc | hc
  · exact ⟨[], Or.inl ⟨hc, rfl⟩, by rw [respond_closed s r e o hc, State.with_resps_nil]⟩
  · exact ⟨[mkResp r e o], Or.inr ⟨hc, _, rfl, rfl⟩, respond_open' s r e o hc⟩

theorem serve_shape (hf : allFlags = true) (s : State) (r : Req)
    (hnw : ¬ (s.reader = .waited ∨ s.reader = .served)) :
    (serveRequest s r = s ∧ (r.junk = true ∨ s.codecClosed = true ∨ dispatch r = .streamMsg)) ∨
    (∃ p : Resp, serveRequest s r = { s with resps := s.resps ++ [p] } ∧ r.junk = false ∧ s.codecClosed = false ∧
        dispatch r ≠ .streamMsg ∧ dispatch r ≠ .job ∧ p.seq = r.seq) ∨
    (serveRequest s r = { s with wg := s.wg + 1, jobs := s.jobs ++ [{ req := r }] } ∧ r.junk = false ∧
        s.codecClosed = false ∧ dispatch r = .job) := by
  obtain ⟨-, -, h3, h4, -⟩ := allFlags_split hf
  rcases Bool.eq_false_or_eq_true r.junk with hj | hj
  · left; refine ⟨?_, Or.inl hj⟩
    unfold serveRequest; simp [hj]
  rcases Bool.eq_false_or_eq_true s.codecClosed with hc | hc
  · left; refine ⟨?_, Or.inr (Or.inl hc)⟩
    unfold serveRequest; simp [hc]
  have hnr : ∀ _e : Unit, respondNoReply s r = respond s r .none false := by
    intro _; simp only [respondNoReply, h4, Bool.not_true, Bool.false_and, Bool.false_eq_true, ↓reduceIte]
  rcases hd : dispatch r with _ | _ | _ | _ | _
  · right; left
    obtain ⟨p, hp, he⟩ := respond_open s r .none false hc
    refine ⟨p, ?_, hj, hc, by simp, by simp, hp⟩
    rw [← he, ← hnr ()]; unfold serveRequest; simp [hj, hc, hd]
  · right; left
    obtain ⟨p, hp, he⟩ := respond_open s r .nostream false hc
    refine ⟨p, ?_, hj, hc, by simp, by simp, hp⟩
    rw [← he]; unfold serveRequest; simp [hj, hc, hd, h3]
  · right; left
    obtain ⟨p, hp, he⟩ := respond_open s r .none false hc
    refine ⟨p, ?_, hj, hc, by simp, by simp, hp⟩
    rw [← he, ← hnr ()]; unfold serveRequest; simp [hj, hc, hd]
  · left; refine ⟨?_, Or.inr (Or.inr rfl)⟩
    unfold serveRequest; simp [hj, hc, hd]
  · right; right
    refine ⟨?_, hj, hc, rfl⟩
    have h1 : s.reader ≠ Reader.waited := fun h => hnw (Or.inl h)
    have h2 : s.reader ≠ Reader.served := fun h => hnw (Or.inr h)
    unfold serveRequest; simp [hj, hc, hd, h1, h2]

theorem ite_wrote (s1 : State) (p : Resp) :
    ∃ ps, Wrote s1 p.seq ps ∧
      (if s1.codecClosed = true then s1 else { s1 with resps := s1.resps ++ [p] }) = { s1 with resps := s1.resps ++ ps } := by
  rcases Bool.eq_false_or_eq_true s1.codecClosed with hc | hc
  · exact ⟨[], Or.inl ⟨hc, rfl⟩, by rw [if_pos hc, State.with_resps_nil]⟩
  · exact ⟨[p], Or.inr ⟨hc, p, rfl, rfl⟩, by rw [if_neg (by simp [hc])]⟩

theorem und_nil {rd : Reader} {dq : List Req} (h : und rd dq = []) : dq = [] ∧ ∀ r, rd ≠ .decoding r := by
  unfold und at h
  cases rd <;> simp_all

theorem step_shape (hf : allFlags = true) {s s' : State} {e : Ev}
    (htd : (s.reader = .drained ∨ s.reader = .waited ∨ s.reader = .served) → undispatched s = [])
    (hs : step s e = some s') : Tr s s' := by
  obtain ⟨h1, h2, h3, h4, h5⟩ := allFlags_split hf
  unfold step at hs
  split at hs
  · cases hs
  cases e with
  | feed r =>
    simp only [stepCore] at hs
    split at hs
    · cases hs
    · rename_i hw
      have hw' : s.reader = .waiting := by simpa using hw
      split at hs
      · rename_i hd
        cases hs
        exact Tr.feedD r hw' hd
      · rename_i hd
        cases hs
        exact Tr.feedQ r hw' (by simpa using hd)
  | eof =>
    simp only [stepCore] at hs
    split at hs
    · cases hs
    · rename_i hw
      cases hs
      exact Tr.eof (by simpa using hw)
  | hret k v =>
    simp only [stepCore] at hs
    split at hs
    · rename_i j hj
      split at hs
      · rename_i hc
        cases hs
        simp only [Bool.and_eq_true, beq_iff_eq] at hc
        exact Tr.hret k j v hj hc.1.1
      · cases hs
    · cases hs
  | decode =>
    simp only [stepCore] at hs
    split at hs
    · rename_i hd
      split at hs
      · rename_i r hr
        have hnw : ¬ (s.reader = .waited ∨ s.reader = .served) := by rw [hr]; simp
        cases hs
        have hdec : Dec s r .waiting s.decodeQ := Or.inl ⟨hd, hr, rfl, rfl⟩
        rcases serve_shape hf s r hnw with ⟨he, hc⟩ | ⟨p, he, c1, c2, c3, c4, c5⟩ | ⟨he, c1, c2, c3⟩
        · rw [he]; exact Tr.skip r .waiting s.decodeQ hdec hc
        · rw [he]; exact Tr.answer r .waiting s.decodeQ p hdec c1 c2 c3 c4 c5
        · rw [he]; exact Tr.newJob r .waiting s.decodeQ hdec c1 c2 c3
      · cases hs
    · rename_i hd
      split at hs
      · rename_i r rest hq
        have hnw : ¬ (s.reader = .waited ∨ s.reader = .served) := by
          intro h
          have h0 := htd (Or.inr h)
          rw [undispatched_eq] at h0
          have h1 := (und_nil h0).1
          rw [hq] at h1; cases h1
        cases hs
        have hdec : Dec s r s.reader rest := Or.inr ⟨by simpa using hd, hq, rfl⟩
        rcases serve_shape hf { s with decodeQ := rest } r hnw with ⟨he, hc⟩ | ⟨p, he, c1, c2, c3, c4, c5⟩ | ⟨he, c1, c2, c3⟩
        · rw [he]; exact Tr.skip r s.reader rest hdec hc
        · rw [he]; exact Tr.answer r s.reader rest p hdec c1 c2 c3 c4 c5
        · rw [he]; exact Tr.newJob r s.reader rest hdec c1 c2 c3
      · cases hs
  | enter k =>
    simp only [stepCore] at hs
    split at hs
    · rename_i j hj
      split at hs
      · cases hs
      · rename_i hcond
        have hq : j.phase = .queued ∧ jobTurn s k = true := by simpa using hcond
        simp only [h1, h2, Bool.not_true, Bool.false_and, Bool.false_eq_true, ↓reduceIte] at hs
        split at hs
        · rename_i hk
          cases hs
          obtain ⟨ps, hw, he⟩ := respond_wrote (updJob s k fun j => { j with phase := .left }) j.req .nosvc false
          rw [he]
          exact Tr.early k j ps hj hq.1 hq.2 (Or.inl (by simpa using hk)) hw
        · rename_i hk
          split at hs
          · rename_i hb
            cases hs
            obtain ⟨ps, hw, he⟩ := respond_wrote (updJob s k fun j => { j with phase := .left }) j.req .badargs false
            rw [he]
            exact Tr.early k j ps hj hq.1 hq.2 (Or.inr (by simpa using hb)) hw
          · rename_i hb
            cases hs
            refine Tr.enter k j hj hq.1 hq.2 (by simpa using hk) ?_
            simp only [Bool.and_eq_true, bne_iff_ne, ne_eq, not_and, Bool.not_eq_true] at hb
            by_cases hn : (flags j.req).noRequest = Gen.noRequest
            · exact Or.inl hn
            · exact Or.inr (hb hn)
    · cases hs
  | leave k =>
    simp only [stepCore] at hs
    split at hs
    · rename_i j hj
      split at hs
      · cases hs
      · rename_i hph
        split at hs
        · cases hs
        · cases hs
          have hph' : j.phase = .entered := by simpa using hph
          generalize j.verdict.getD .ok = v
          cases v with
          | ok =>
            obtain ⟨ps, hw, he⟩ := respond_wrote (updJob s k fun j => { j with phase := .left }) j.req .none true
            simp only []
            rw [he]
            exact Tr.leave k j ps hj hph' hw
          | err n =>
            obtain ⟨ps, hw, he⟩ := respond_wrote (updJob s k fun j => { j with phase := .left }) j.req (.text k n) false
            simp only []
            rw [he]
            exact Tr.leave k j ps hj hph' hw
          | badReply =>
            simp only []
            split
            · obtain ⟨ps, hw, he⟩ := ite_wrote (updJob s k fun j => { j with phase := .left })
                { seq := j.req.seq, err := .badreply, reply := .empty }
              rw [he]
              exact Tr.leave k j ps hj hph' hw
            · obtain ⟨ps, hw, he⟩ := respond_wrote (updJob s k fun j => { j with phase := .left }) j.req .none true
              rw [he]
              exact Tr.leave k j ps hj hph' hw
    · cases hs
  | drain =>
    simp only [stepCore] at hs
    split at hs
    · rename_i hc
      cases hs
      simp only [Bool.and_eq_true, beq_iff_eq, List.isEmpty_iff] at hc
      exact Tr.drain hc.1 hc.2
    · cases hs
  | wait =>
    simp only [stepCore, h5, Bool.not_true, Bool.false_and, Bool.or_false] at hs
    split at hs
    · rename_i hc
      cases hs
      simp only [Bool.and_eq_true, beq_iff_eq] at hc
      exact Tr.wait hc.1 hc.2
    · cases hs
  | closeCodec =>
    simp only [stepCore] at hs
    split at hs
    · rename_i hc
      cases hs
      exact Tr.closeCodec (by simpa using hc)
    · cases hs

/-! ### the uniqueness-free invariant -/

structure Base (s : State) : Prop where
  fifo : s.jobs.map (·.req) ++ (undispatched s).filter isJob = s.reqs.filter isJob
  split : dispatched s ++ undispatched s = s.reqs
  td : (s.reader = .drained ∨ s.reader = .waited ∨ s.reader = .served) → undispatched s = []
  mode : (s.cfg.directIO = true → s.decodeQ = []) ∧ (s.cfg.directIO = false → ∀ r, s.reader ≠ .decoding r)
  closed : s.codecClosed = true → s.reader = .served
  nocrash : s.crashed = none
  execPh : ∀ k ∈ s.execs, ∃ r, r ∈ s.reqs ∧ r.seq = k ∧ needsExec r = true
  respPh : ∀ p ∈ s.resps, ∃ r, r ∈ s.reqs ∧ r.seq = p.seq ∧ needsResponse r = true

theorem und_decoding (r : Req) (dq : List Req) : und (.decoding r) dq = r :: dq := rfl

theorem und_other {rd : Reader} (h : ∀ r, rd ≠ .decoding r) (dq : List Req) : und rd dq = dq := by
  cases rd <;> first | rfl | exact absurd rfl (h _)

theorem split_of {reqs : List Req} {rd : Reader} {dq : List Req} {D : List Req} (h : D ++ und rd dq = reqs) :
    dsp reqs rd dq ++ und rd dq = reqs := by
  rw [dsp_eq h]; exact h

theorem Dec.und_eq {s : State} {r : Req} {rd : Reader} {dq : List Req} (h : Dec s r rd dq) (hb : Base s) :
    und s.reader s.decodeQ = r :: und rd dq := by
  rcases h with ⟨hd, hr, rfl, rfl⟩ | ⟨hd, hq, rfl⟩
  · rw [hr, hb.mode.1 hd]; rfl
  · rw [und_other (hb.mode.2 hd), und_other (hb.mode.2 hd), hq]

theorem Dec.mode {s : State} {r : Req} {rd : Reader} {dq : List Req} (h : Dec s r rd dq) (hb : Base s) :
    (s.cfg.directIO = true → dq = []) ∧ (s.cfg.directIO = false → ∀ r, rd ≠ .decoding r) := by
  rcases h with ⟨hd, hr, rfl, rfl⟩ | ⟨hd, hq, rfl⟩
  · exact ⟨hb.mode.1, fun _ _ h => by cases h⟩
  · exact ⟨fun h => (by rw [hd] at h; cases h), hb.mode.2⟩

theorem Dec.busy {s : State} {r : Req} {rd : Reader} {dq : List Req} (h : Dec s r rd dq) (hb : Base s) :
    ¬ (s.reader = .drained ∨ s.reader = .waited ∨ s.reader = .served) := by
  intro hr
  have h1 := hb.td hr
  rw [undispatched_eq, h.und_eq hb] at h1
  cases h1

theorem Dec.open {s : State} {r : Req} {rd : Reader} {dq : List Req} (h : Dec s r rd dq) (hb : Base s) :
    s.codecClosed = false := by
  rcases Bool.eq_false_or_eq_true s.codecClosed with hc | hc
  · exact absurd (Or.inr (Or.inr (hb.closed hc))) (h.busy hb)
  · exact hc

theorem Dec.rd_busy {s : State} {r : Req} {rd : Reader} {dq : List Req} (h : Dec s r rd dq) (hb : Base s) :
    ¬ (rd = .drained ∨ rd = .waited ∨ rd = .served) := by
  rcases h with ⟨hd, hr, rfl, rfl⟩ | ⟨hd, hq, rfl⟩
  · simp
  · exact Dec.busy (Or.inr ⟨hd, hq, rfl⟩) hb

theorem Base.und_mem {s : State} (hb : Base s) {r : Req} (h : r ∈ undispatched s) : r ∈ s.reqs := by
  rw [← hb.split]; exact List.mem_append_right _ h

theorem Base.job_mem {s : State} (hb : Base s) {j : Job} (h : j ∈ s.jobs) : j.req ∈ s.reqs ∧ isJob j.req = true := by
  have h1 : j.req ∈ s.reqs.filter isJob := by
    rw [← hb.fifo]; exact List.mem_append_left _ (List.mem_map.2 ⟨j, h, rfl⟩)
  exact List.mem_filter.1 h1

theorem getJob_mem {s : State} {k : Nat} {j : Job} (h : getJob s k = some j) : j ∈ s.jobs ∧ j.req.seq = k := by
  unfold getJob at h
  exact ⟨List.mem_of_find?_eq_some h, by simpa using List.find?_some h⟩

theorem upd_map_req {k : Nat} {f : Job → Job} (hf : ∀ j, (f j).req = j.req) (js : List Job) :
    (upd k f js).map (·.req) = js.map (·.req) := by
  unfold upd
  rw [List.map_map]
  apply List.map_congr_left
  intro j _
  simp only [Function.comp]
  split
  · exact hf j
  · rfl

theorem isJob_needsResponse {r : Req} (h : isJob r = true) : needsResponse r = true := by
  unfold isJob at h; unfold needsResponse
  simp only [Bool.and_eq_true, Bool.not_eq_true', beq_iff_eq] at h
  simp [h.1, h.2]

theorem base_init (cfg : Cfg) : Base (init cfg) := by
  refine ⟨rfl, rfl, fun _ => rfl, ⟨fun _ => rfl, fun _ _ h => (by cases h)⟩, fun h => (by cases h), rfl, ?_, ?_⟩
  · intro k hk; cases hk
  · intro p hp; cases hp

theorem base_tr {s s' : State} (hb : Base s) (htr : Tr s s') : Base s' := by
  cases htr with
  | feedD r hw hd =>
    have hq := hb.mode.1 hd
    have hU : undispatched s = [] := by rw [undispatched_eq, hw, hq]; rfl
    have hfifo := hb.fifo
    have hsplit := hb.split
    rw [hU] at hfifo hsplit
    refine ⟨?_, ?_, ?_, ?_, ?_, hb.nocrash, ?_, ?_⟩
    · show s.jobs.map (·.req) ++ (und (.decoding r) s.decodeQ).filter isJob = (s.reqs ++ [r]).filter isJob
      rw [hq, und_decoding, List.filter_append, ← hfifo]; simp
    · show dsp (s.reqs ++ [r]) (.decoding r) s.decodeQ ++ und (.decoding r) s.decodeQ = s.reqs ++ [r]
      apply split_of (D := dispatched s)
      rw [hq, und_decoding]; simp only [List.append_nil] at hsplit; rw [hsplit]
    · intro h; simp at h
    · exact ⟨fun _ => hq, fun h => (by rw [hd] at h; cases h)⟩
    · intro hc; have := hb.closed hc; rw [hw] at this; cases this
    · intro k hk; obtain ⟨r0, h1, h2⟩ := hb.execPh k hk; exact ⟨r0, List.mem_append_left _ h1, h2⟩
    · intro p hp; obtain ⟨r0, h1, h2⟩ := hb.respPh p hp; exact ⟨r0, List.mem_append_left _ h1, h2⟩
  | feedQ r hw hd =>
    have hnd : ∀ r, s.reader ≠ .decoding r := hb.mode.2 hd
    have hfifo := hb.fifo
    have hsplit := hb.split
    rw [undispatched_eq, und_other hnd] at hfifo hsplit
    refine ⟨?_, ?_, ?_, ?_, ?_, hb.nocrash, ?_, ?_⟩
    · show s.jobs.map (·.req) ++ (und s.reader (s.decodeQ ++ [r])).filter isJob = (s.reqs ++ [r]).filter isJob
      rw [und_other hnd, List.filter_append, List.filter_append, ← hfifo, List.append_assoc]
    · show dsp (s.reqs ++ [r]) s.reader (s.decodeQ ++ [r]) ++ und s.reader (s.decodeQ ++ [r]) = s.reqs ++ [r]
      apply split_of (D := dispatched s)
      rw [und_other hnd, ← List.append_assoc, hsplit]
    · intro h; rw [hw] at h; simp at h
    · exact ⟨fun h => (by rw [hd] at h; cases h), hb.mode.2⟩
    · intro hc; have := hb.closed hc; rw [hw] at this; cases this
    · intro k hk; obtain ⟨r0, h1, h2⟩ := hb.execPh k hk; exact ⟨r0, List.mem_append_left _ h1, h2⟩
    · intro p hp; obtain ⟨r0, h1, h2⟩ := hb.respPh p hp; exact ⟨r0, List.mem_append_left _ h1, h2⟩
  | eof hw =>
    have hu : und .ended s.decodeQ = und s.reader s.decodeQ := by rw [hw]; rfl
    refine ⟨?_, ?_, ?_, ?_, ?_, hb.nocrash, hb.execPh, hb.respPh⟩
    · show s.jobs.map (·.req) ++ (und .ended s.decodeQ).filter isJob = s.reqs.filter isJob
      rw [hu]; exact hb.fifo
    · show dsp s.reqs .ended s.decodeQ ++ und .ended s.decodeQ = s.reqs
      apply split_of (D := dispatched s); rw [hu]; exact hb.split
    · intro h; simp at h
    · exact ⟨hb.mode.1, fun _ _ h => by cases h⟩
    · intro hc; have := hb.closed hc; rw [hw] at this; cases this
  | skip r rd dq hdec hc =>
    have hU := hdec.und_eq hb
    have hfifo := hb.fifo
    have hsplit := hb.split
    rw [undispatched_eq, hU] at hfifo hsplit
    have hnj : isJob r = false := by
      rcases hc with hc | hc | hc
      · simp [isJob, hc]
      · rw [hdec.open hb] at hc; cases hc
      · simp [isJob, hc]
    refine ⟨?_, ?_, ?_, hdec.mode hb, ?_, hb.nocrash, hb.execPh, hb.respPh⟩
    · show s.jobs.map (·.req) ++ (und rd dq).filter isJob = s.reqs.filter isJob
      rw [← hfifo, List.filter_cons, hnj]; simp
    · show dsp s.reqs rd dq ++ und rd dq = s.reqs
      apply split_of (D := dispatched s ++ [r]); rw [← hsplit]; simp
    · intro h; exact absurd h (hdec.rd_busy hb)
    · intro h; have := hdec.open hb; rw [this] at h; cases h
  | answer r rd dq p hdec c1 c2 c3 c4 c5 =>
    have hU := hdec.und_eq hb
    have hfifo := hb.fifo
    have hsplit := hb.split
    rw [undispatched_eq, hU] at hfifo hsplit
    have hnj : isJob r = false := by simp [isJob, c4]
    refine ⟨?_, ?_, ?_, hdec.mode hb, ?_, hb.nocrash, hb.execPh, ?_⟩
    · show s.jobs.map (·.req) ++ (und rd dq).filter isJob = s.reqs.filter isJob
      rw [← hfifo, List.filter_cons, hnj]; simp
    · show dsp s.reqs rd dq ++ und rd dq = s.reqs
      apply split_of (D := dispatched s ++ [r]); rw [← hsplit]; simp
    · intro h; exact absurd h (hdec.rd_busy hb)
    · intro h; have := hdec.open hb; rw [this] at h; cases h
    · intro q hq
      rcases List.mem_append.1 hq with hq | hq
      · exact hb.respPh q hq
      · have : q = p := by simpa using hq
        subst this
        refine ⟨r, ?_, c5.symm, ?_⟩
        · rw [← hsplit]; simp
        · simp [needsResponse, c1, c3]
  | newJob r rd dq hdec c1 c2 c3 =>
    have hU := hdec.und_eq hb
    have hfifo := hb.fifo
    have hsplit := hb.split
    rw [undispatched_eq, hU] at hfifo hsplit
    have hnj : isJob r = true := by simp [isJob, c1, c3]
    refine ⟨?_, ?_, ?_, hdec.mode hb, ?_, hb.nocrash, hb.execPh, hb.respPh⟩
    · show (s.jobs ++ [({ req := r } : Job)]).map (·.req) ++ (und rd dq).filter isJob = s.reqs.filter isJob
      rw [← hfifo, List.filter_cons, hnj]; simp
    · show dsp s.reqs rd dq ++ und rd dq = s.reqs
      apply split_of (D := dispatched s ++ [r]); rw [← hsplit]; simp
    · intro h; exact absurd h (hdec.rd_busy hb)
    · intro h; have := hdec.open hb; rw [this] at h; cases h
  | early k j ps hj hq ht hne hw =>
    refine ⟨?_, hb.split, hb.td, hb.mode, hb.closed, hb.nocrash, hb.execPh, ?_⟩
    · show (upd k _ s.jobs).map (·.req) ++ (undispatched s).filter isJob = s.reqs.filter isJob
      rw [upd_map_req]; exact hb.fifo; intro _; rfl
    · intro q hq
      rcases List.mem_append.1 hq with hq | hq
      · exact hb.respPh q hq
      · rcases hw with ⟨_, rfl⟩ | ⟨_, p, rfl, hp⟩
        · cases hq
        · have : q = p := by simpa using hq
          subst this
          have hm := hb.job_mem (getJob_mem hj).1
          exact ⟨j.req, hm.1, hp.symm, isJob_needsResponse hm.2⟩
  | enter k j hj hq ht hk hargs =>
    refine ⟨?_, hb.split, hb.td, hb.mode, hb.closed, hb.nocrash, ?_, hb.respPh⟩
    · show (upd k _ s.jobs).map (·.req) ++ (undispatched s).filter isJob = s.reqs.filter isJob
      rw [upd_map_req]; exact hb.fifo; intro _; rfl
    · intro k' hk'
      rcases List.mem_append.1 hk' with hk' | hk'
      · exact hb.execPh k' hk'
      · have : k' = k := by simpa using hk'
        subst this
        have hm := hb.job_mem (getJob_mem hj).1
        refine ⟨j.req, hm.1, (getJob_mem hj).2, ?_⟩
        unfold needsExec
        rw [hm.2, hk]
        rcases hargs with h | h
        · simp [h]
        · simp [h]
  | hret k j v hj hq =>
    refine ⟨?_, hb.split, hb.td, hb.mode, hb.closed, hb.nocrash, hb.execPh, hb.respPh⟩
    show (upd k _ s.jobs).map (·.req) ++ (undispatched s).filter isJob = s.reqs.filter isJob
    rw [upd_map_req]; exact hb.fifo; intro _; rfl
  | leave k j ps hj hq hw =>
    refine ⟨?_, hb.split, hb.td, hb.mode, hb.closed, hb.nocrash, hb.execPh, ?_⟩
    · show (upd k _ s.jobs).map (·.req) ++ (undispatched s).filter isJob = s.reqs.filter isJob
      rw [upd_map_req]; exact hb.fifo; intro _; rfl
    · intro q hq
      rcases List.mem_append.1 hq with hq | hq
      · exact hb.respPh q hq
      · rcases hw with ⟨_, rfl⟩ | ⟨_, p, rfl, hp⟩
        · cases hq
        · have : q = p := by simpa using hq
          subst this
          have hm := hb.job_mem (getJob_mem hj).1
          exact ⟨j.req, hm.1, hp.symm, isJob_needsResponse hm.2⟩
  | drain hr hq =>
    have hu : und .drained s.decodeQ = und s.reader s.decodeQ := by rw [hr]; rfl
    refine ⟨?_, ?_, ?_, ?_, ?_, hb.nocrash, hb.execPh, hb.respPh⟩
    · show s.jobs.map (·.req) ++ (und .drained s.decodeQ).filter isJob = s.reqs.filter isJob
      rw [hu]; exact hb.fifo
    · show dsp s.reqs .drained s.decodeQ ++ und .drained s.decodeQ = s.reqs
      apply split_of (D := dispatched s); rw [hu]; exact hb.split
    · intro _; show und .drained s.decodeQ = []; rw [hq]; rfl
    · exact ⟨hb.mode.1, fun _ _ h => by cases h⟩
    · intro hc; have := hb.closed hc; rw [hr] at this; cases this
  | wait hr hwg =>
    have hu : und .waited s.decodeQ = und s.reader s.decodeQ := by rw [hr]; rfl
    refine ⟨?_, ?_, ?_, ?_, ?_, hb.nocrash, hb.execPh, hb.respPh⟩
    · show s.jobs.map (·.req) ++ (und .waited s.decodeQ).filter isJob = s.reqs.filter isJob
      rw [hu]; exact hb.fifo
    · show dsp s.reqs .waited s.decodeQ ++ und .waited s.decodeQ = s.reqs
      apply split_of (D := dispatched s); rw [hu]; exact hb.split
    · intro _; show und .waited s.decodeQ = []; rw [hu]; exact hb.td (Or.inl hr)
    · exact ⟨hb.mode.1, fun _ _ h => by cases h⟩
    · intro hc; have := hb.closed hc; rw [hr] at this; cases this
  | closeCodec hr =>
    have hu : und .served s.decodeQ = und s.reader s.decodeQ := by rw [hr]; rfl
    refine ⟨?_, ?_, ?_, ?_, ?_, hb.nocrash, hb.execPh, hb.respPh⟩
    · show s.jobs.map (·.req) ++ (und .served s.decodeQ).filter isJob = s.reqs.filter isJob
      rw [hu]; exact hb.fifo
    · show dsp s.reqs .served s.decodeQ ++ und .served s.decodeQ = s.reqs
      apply split_of (D := dispatched s); rw [hu]; exact hb.split
    · intro _; show und .served s.decodeQ = []; rw [hu]; exact hb.td (Or.inr (Or.inl hr))
    · exact ⟨hb.mode.1, fun _ _ h => by cases h⟩
    · intro _; rfl

theorem base_step (hf : allFlags = true) {s s' : State} {e : Ev} (hb : Base s) (hs : step s e = some s') : Base s' :=
  base_tr hb (step_shape hf hb.td hs)

theorem accepts_preserves {P : State → Prop} (hstep : ∀ s e s', P s → step s e = some s' → P s')
    {s : State} {tr : List Ev} {s' : State} (h : Accepts s tr s') : P s → P s' := by
  induction h with
  | nil _ => exact id
  | cons hs _ ih => exact fun hp => ih (hstep _ _ _ hp hs)

theorem base_accepts (hf : allFlags = true) {cfg : Cfg} {tr : List Ev} {s : State}
    (h : Accepts (init cfg) tr s) : Base s :=
  accepts_preserves (P := Base) (fun _ _ _ hb hs => base_step hf hb hs) h (base_init cfg)

theorem allFlags_true : allFlags = true := by decide

/-! ### C08 -/

/-- C08: with the five source facts, nothing a peer sends crashes the connection. -/
theorem never_crashes {cfg : Cfg} {tr : List Ev} {s : State} (hf : allFlags = true)
    (h : Accepts (init cfg) tr s) : s.crashed = none :=
  (base_accepts hf h).nocrash

/-! ### C04: nothing phantom; C05: dispatch order -/

theorem exec_not_phantom_of_flags (hf : allFlags = true) {cfg : Cfg} {tr : List Ev} {s : State}
    (h : Accepts (init cfg) tr s) (k : Nat) (hk : k ∈ s.execs) :
    ∃ r, r ∈ s.reqs ∧ r.seq = k ∧ needsExec r = true :=
  (base_accepts hf h).execPh k hk

theorem exec_not_phantom {cfg : Cfg} {tr : List Ev} {s : State}
    (h : Accepts (init cfg) tr s) (k : Nat) (hk : k ∈ s.execs) :
    ∃ r, r ∈ s.reqs ∧ r.seq = k ∧ needsExec r = true :=
  exec_not_phantom_of_flags allFlags_true h k hk

theorem resp_not_phantom_of_flags (hf : allFlags = true) {cfg : Cfg} {tr : List Ev} {s : State}
    (h : Accepts (init cfg) tr s) (p : Resp) (hp : p ∈ s.resps) :
    ∃ r, r ∈ s.reqs ∧ r.seq = p.seq ∧ needsResponse r = true :=
  (base_accepts hf h).respPh p hp

theorem resp_not_phantom {cfg : Cfg} {tr : List Ev} {s : State}
    (h : Accepts (init cfg) tr s) (p : Resp) (hp : p ∈ s.resps) :
    ∃ r, r ∈ s.reqs ∧ r.seq = p.seq ∧ needsResponse r = true :=
  resp_not_phantom_of_flags allFlags_true h p hp

theorem pipe_dispatch_order_of_flags (hf : allFlags = true) {cfg : Cfg} {tr : List Ev} {s : State}
    (h : Accepts (init cfg) tr s) :
    s.jobs.map (·.req) ++ (undispatched s).filter isJob = s.reqs.filter isJob :=
  (base_accepts hf h).fifo

theorem pipe_dispatch_order {cfg : Cfg} {tr : List Ev} {s : State} (h : Accepts (init cfg) tr s) :
    s.jobs.map (·.req) ++ (undispatched s).filter isJob = s.reqs.filter isJob :=
  pipe_dispatch_order_of_flags allFlags_true h

/-! ### list facts about jobs with pairwise distinct sequence numbers -/

/-- the dispatched jobs carry pairwise distinct sequence numbers -/
def JN (s : State) : Prop := (s.jobs.map (·.req.seq)).Nodup

theorem seq_inj {js : List Job} (hn : (js.map (·.req.seq)).Nodup) {a b : Job} (ha : a ∈ js) (hb : b ∈ js)
    (h : a.req.seq = b.req.seq) : a = b := by
  induction js with
  | nil => cases ha
  | cons x xs ih =>
    rw [List.map_cons, List.nodup_cons] at hn
    rcases List.mem_cons.1 ha with rfl | ha' <;> rcases List.mem_cons.1 hb with rfl | hb'
    · rfl
    · exact absurd (List.mem_map.2 ⟨b, hb', h.symm⟩) hn.1
    · exact absurd (List.mem_map.2 ⟨a, ha', h⟩) hn.1
    · exact ih hn.2 ha' hb'

theorem nodup_split {L R : List Job} {j : Job} (hn : ((L ++ j :: R).map (·.req.seq)).Nodup) :
    (∀ a ∈ L, a.req.seq ≠ j.req.seq) ∧ (∀ b ∈ R, b.req.seq ≠ j.req.seq) := by
  constructor
  · intro a ha h
    have : a = j := seq_inj hn (List.mem_append_left _ ha) (List.mem_append_right _ (List.mem_cons_self)) h
    subst this
    rw [List.map_append, List.nodup_append] at hn
    exact hn.2.2 _ (List.mem_map.2 ⟨a, ha, rfl⟩) _ (List.mem_map.2 ⟨a, List.mem_cons_self, rfl⟩) rfl
  · intro b hb h
    have : b = j := seq_inj hn (List.mem_append_right _ (List.mem_cons_of_mem _ hb))
      (List.mem_append_right _ (List.mem_cons_self)) h
    subst this
    rw [List.map_append, List.nodup_append, List.map_cons, List.nodup_cons] at hn
    exact hn.2.1.1 (List.mem_map.2 ⟨b, hb, rfl⟩)

theorem upd_none {k : Nat} {f : Job → Job} {L : List Job} (h : ∀ a ∈ L, a.req.seq ≠ k) : upd k f L = L := by
  unfold upd
  induction L with
  | nil => rfl
  | cons x xs ih =>
    have hx : (x.req.seq == k) = false := by simpa using h x List.mem_cons_self
    rw [List.map_cons, ih (fun a ha => h a (List.mem_cons_of_mem _ ha))]
    simp [hx]

theorem upd_at {L R : List Job} {j : Job} (f : Job → Job)
    (hL : ∀ a ∈ L, a.req.seq ≠ j.req.seq) (hR : ∀ b ∈ R, b.req.seq ≠ j.req.seq) :
    upd j.req.seq f (L ++ j :: R) = L ++ f j :: R := by
  have h1 := upd_none (f := f) hL
  have h2 := upd_none (f := f) hR
  unfold upd at *
  rw [List.map_append, List.map_cons, h1, h2]
  simp

theorem upd_split {js L R : List Job} {j : Job} (hn : (js.map (·.req.seq)).Nodup) (h : js = L ++ j :: R)
    (f : Job → Job) : upd j.req.seq f js = L ++ f j :: R := by
  subst h
  exact upd_at f (nodup_split hn).1 (nodup_split hn).2

theorem getJob_split {s : State} {k : Nat} {j : Job} (hj : getJob s k = some j) :
    j.req.seq = k ∧ ∃ A B, s.jobs = A ++ j :: B := by
  refine ⟨(getJob_mem hj).2, ?_⟩
  obtain ⟨A, B, h⟩ := List.append_of_mem (getJob_mem hj).1
  exact ⟨A, B, h⟩

/-! ### the full invariant (needs distinct job sequence numbers to be inductive) -/

def cNL (j : Job) : Bool := j.phase != .left
def cL (k : Nat) (j : Job) : Bool := j.phase == .left && j.req.seq == k
def cR (k : Nat) (j : Job) : Bool := j.ran && j.req.seq == k
def cD (k : Nat) (r : Req) : Bool := needsResponse r && !isJob r && r.seq == k

structure Big (s : State) : Prop where
  base : Base s
  wgCount : s.wg = s.jobs.countP cNL
  ran : ∀ j ∈ s.jobs, (j.ran = true ↔ j.phase ≠ .queued ∧ needsExec j.req = true)
  execC : ∀ k, execCount s k = s.jobs.countP (cR k)
  respC : ∀ k, respCount s k = s.jobs.countP (cL k) + (dispatched s).countP (cD k)
  td2 : (s.reader = .waited ∨ s.reader = .served) → s.wg = 0
  pipe : s.cfg.pipe = true → ∃ L R, s.jobs = L ++ R ∧ (∀ j ∈ L, j.phase = .left) ∧ (∀ j ∈ R, j.phase ≠ .left) ∧
    (∀ j ∈ R.tail, j.phase = .queued) ∧ s.execs = (s.jobs.filter (·.ran)).map (·.req.seq)

theorem big_init (cfg : Cfg) : Big (init cfg) := by
  refine ⟨base_init cfg, rfl, ?_, fun _ => rfl, fun _ => rfl, fun _ => rfl, fun _ => ⟨[], [], rfl, ?_, ?_, ?_, rfl⟩⟩
  · intro j hj; cases hj
  · intro j hj; cases hj
  · intro j hj; cases hj
  · intro j hj; cases hj

theorem Big.open_of_job {s : State} (hB : Big s) {j : Job} (hj : j ∈ s.jobs) (hp : j.phase ≠ .left) :
    s.codecClosed = false := by
  rcases Bool.eq_false_or_eq_true s.codecClosed with hc | hc
  · have h0 := hB.td2 (Or.inr (hB.base.closed hc))
    rw [hB.wgCount, List.countP_eq_zero] at h0
    exact absurd (by simpa [cNL] using hp) (h0 j hj)
  · exact hc

theorem wrote_open {s : State} {k : Nat} {ps : List Resp} (hw : Wrote s k ps) (hc : s.codecClosed = false) :
    ∃ p : Resp, ps = [p] ∧ p.seq = k := by
  rcases hw with ⟨h, _⟩ | ⟨_, h⟩
  · rw [hc] at h; cases h
  · exact h

theorem respCount_append (s : State) (ps : List Resp) (k : Nat) :
    ((s.resps ++ ps).filter (·.seq == k)).length = respCount s k + (ps.filter (·.seq == k)).length := by
  simp [respCount, List.filter_append]

theorem feedD_dsp {s : State} (hb : Base s) (r : Req) (hw : s.reader = .waiting) (hd : s.cfg.directIO = true) :
    dsp (s.reqs ++ [r]) (.decoding r) s.decodeQ = dispatched s := by
  have hq := hb.mode.1 hd
  have hsplit := hb.split
  rw [undispatched_eq, hw, hq] at hsplit
  apply dsp_eq
  rw [hq, und_decoding, ← hsplit]; simp [und]

theorem feedQ_dsp {s : State} (hb : Base s) (r : Req) (hd : s.cfg.directIO = false) :
    dsp (s.reqs ++ [r]) s.reader (s.decodeQ ++ [r]) = dispatched s := by
  have hnd : ∀ r, s.reader ≠ .decoding r := hb.mode.2 hd
  have hsplit := hb.split
  rw [undispatched_eq, und_other hnd] at hsplit
  apply dsp_eq
  rw [und_other hnd, ← List.append_assoc, hsplit]

theorem dec_dsp {s : State} (hb : Base s) {r : Req} {rd : Reader} {dq : List Req} (hdec : Dec s r rd dq) :
    dsp s.reqs rd dq = dispatched s ++ [r] := by
  have hsplit := hb.split
  rw [undispatched_eq, hdec.und_eq hb] at hsplit
  apply dsp_eq
  rw [← hsplit]; simp

theorem same_dsp {s : State} {rd : Reader} (h : und rd s.decodeQ = und s.reader s.decodeQ) :
    dsp s.reqs rd s.decodeQ = dispatched s := by
  unfold dispatched dsp; rw [h]

theorem big_tr_nojob {s s' : State} (hB : Big s) (htr : Tr s s') (hjobs : s'.jobs = s.jobs) (hwg : s'.wg = s.wg)
    (hexecs : s'.execs = s.execs) (hcfg : s'.cfg = s.cfg)
    (hresp : ∀ k, respCount s' k = s.jobs.countP (cL k) + (dispatched s').countP (cD k))
    (htd2 : (s'.reader = .waited ∨ s'.reader = .served) → s.wg = 0) : Big s' := by
  refine ⟨base_tr hB.base htr, ?_, ?_, ?_, ?_, ?_, ?_⟩
  · rw [hjobs, hwg]; exact hB.wgCount
  · rw [hjobs]; exact hB.ran
  · intro k; unfold execCount; rw [hjobs, hexecs]; exact hB.execC k
  · intro k; rw [hjobs]; exact hresp k
  · intro h; rw [hwg]; exact htd2 h
  · rw [hjobs, hexecs, hcfg]; exact hB.pipe

theorem big_newJob {s : State} (hB : Big s) {r : Req} {rd : Reader} {dq : List Req} (hdec : Dec s r rd dq)
    (c1 : r.junk = false) (c2 : s.codecClosed = false) (c3 : dispatch r = .job) :
    Big { s with reader := rd, decodeQ := dq, wg := s.wg + 1, jobs := s.jobs ++ [{ req := r }] } := by
  have hb := hB.base
  refine ⟨base_tr hb (Tr.newJob r rd dq hdec c1 c2 c3), ?_, ?_, ?_, ?_, ?_, ?_⟩
  · show s.wg + 1 = (s.jobs ++ [({ req := r } : Job)]).countP cNL
    rw [List.countP_append, List.countP_singleton, ← hB.wgCount]; rfl
  · intro j hj
    rcases List.mem_append.1 hj with hj | hj
    · exact hB.ran j hj
    · have : j = { req := r } := by simpa using hj
      subst this; simp
  · intro k
    show execCount s k = (s.jobs ++ [({ req := r } : Job)]).countP (cR k)
    rw [List.countP_append, List.countP_singleton, hB.execC k]; simp [cR]
  · intro k
    show respCount s k = (s.jobs ++ [({ req := r } : Job)]).countP (cL k) + (dsp s.reqs rd dq).countP (cD k)
    have hcd : cD k r = false := by simp [cD, isJob, c1, c3]
    rw [dec_dsp hb hdec, List.countP_append, List.countP_append, List.countP_singleton, List.countP_singleton,
      hB.respC k, hcd]
    simp [cL]
  · intro h; exact absurd (Or.inr h) (hdec.rd_busy hb)
  · intro hp
    obtain ⟨L, R, hj, hL, hR, hT, he⟩ := hB.pipe hp
    refine ⟨L, R ++ [{ req := r }], ?_, hL, ?_, ?_, ?_⟩
    · show s.jobs ++ [({ req := r } : Job)] = L ++ (R ++ [{ req := r }])
      rw [hj, List.append_assoc]
    · intro j hj
      rcases List.mem_append.1 hj with hj | hj
      · exact hR j hj
      · have : j = { req := r } := by simpa using hj
        subst this; simp
    · intro j hj
      cases R with
      | nil => simp at hj
      | cons x xs =>
        simp only [List.cons_append, List.tail_cons] at hj
        rcases List.mem_append.1 hj with hj | hj
        · exact hT j hj
        · have : j = { req := r } := by simpa using hj
          subst this; rfl
    · show s.execs = ((s.jobs ++ [({ req := r } : Job)]).filter (·.ran)).map (·.req.seq)
      rw [List.filter_append]; simpa using he

theorem countP_mid {α : Type} (p : α → Bool) (A B : List α) (x : α) :
    (A ++ x :: B).countP p = A.countP p + B.countP p + (if p x then 1 else 0) := by
  rw [List.countP_append, List.countP_cons]; omega

theorem needsExec_false_of {r : Req}
    (h : r.method.known = false ∨ ((flags r).noRequest ≠ Gen.noRequest ∧ r.badArgs = true)) :
    needsExec r = false := by
  unfold needsExec
  rcases h with h | ⟨h1, h2⟩
  · simp [h]
  · simp [h1, h2]

theorem needsExec_of {r : Req} (hj : isJob r = true) (hk : r.method.known = true)
    (h : (flags r).noRequest = Gen.noRequest ∨ r.badArgs = false) : needsExec r = true := by
  unfold needsExec
  rw [hj, hk]
  rcases h with h | h <;> simp [h]

/-- pipelining: the job whose turn it is heads the not-yet-left part -/
theorem turn_head {s : State} (hn : JN s) {k : Nat} {j : Job} (hj : getJob s k = some j)
    (hp : s.cfg.pipe = true) (ht : jobTurn s k = true) {L R : List Job} (hLR : s.jobs = L ++ R)
    (hL : ∀ j ∈ L, j.phase = .left) (hR : ∀ j ∈ R, j.phase ≠ .left) : ∃ R', R = j :: R' := by
  unfold jobTurn at ht
  simp only [hp, ↓reduceIte] at ht
  have hnone : L.find? (fun j => j.phase != .left) = none := by
    rw [List.find?_eq_none]; intro x hx; simp [hL x hx]
  rw [hLR, List.find?_append, hnone] at ht
  cases R with
  | nil => simp at ht
  | cons x R' =>
    have hx : (x.phase != .left) = true := by simpa using hR x List.mem_cons_self
    have hxk : x.req.seq = k := by simpa [List.find?_cons, hx] using ht
    have hxm : x ∈ s.jobs := by rw [hLR]; exact List.mem_append_right _ List.mem_cons_self
    have : x = j := seq_inj hn hxm (getJob_mem hj).1 (by rw [hxk, (getJob_mem hj).2])
    exact ⟨R', by rw [this]⟩

theorem entered_head {s : State} {j : Job} (hm : j ∈ s.jobs) (hq : j.phase = .entered)
    {L R : List Job} (hLR : s.jobs = L ++ R)
    (hL : ∀ j ∈ L, j.phase = .left) (hT : ∀ j ∈ R.tail, j.phase = .queued) : ∃ R', R = j :: R' := by
  rw [hLR] at hm
  rcases List.mem_append.1 hm with hm | hm
  · have := hL j hm; rw [hq] at this; cases this
  · cases R with
    | nil => cases hm
    | cons x R' =>
      rcases List.mem_cons.1 hm with rfl | hm
      · exact ⟨R', rfl⟩
      · have := hT j hm; rw [hq] at this; cases this

theorem big_early {s : State} (hB : Big s) (hn : JN s) {k : Nat} {j : Job} {ps : List Resp}
    (hj : getJob s k = some j) (hq : j.phase = .queued) (ht : jobTurn s k = true)
    (hne : j.req.method.known = false ∨ ((flags j.req).noRequest ≠ Gen.noRequest ∧ j.req.badArgs = true))
    (hw : Wrote s j.req.seq ps) :
    Big { s with jobs := upd k (fun j => { j with phase := .left }) s.jobs, resps := s.resps ++ ps, wg := s.wg - 1 } := by
  have hb := hB.base
  have hb' := base_tr hb (Tr.early k j ps hj hq ht hne hw)
  obtain ⟨hk, A, B, hjobs⟩ := getJob_split hj
  have hupd := upd_split hn hjobs (fun j => { j with phase := .left })
  rw [hk] at hupd
  have hmem := (getJob_mem hj).1
  have hopen := hB.open_of_job hmem (by rw [hq]; simp)
  obtain ⟨p, rfl, hp⟩ := wrote_open hw hopen
  have hran : j.ran = false := by
    cases h : j.ran
    · rfl
    · exact absurd hq ((hB.ran j hmem).1 h).1
  have hnex : needsExec j.req = false := needsExec_false_of hne
  have hwg := hB.wgCount
  have hexec := hB.execC
  have hresp := hB.respC
  have hR := hB.ran
  rw [hjobs] at hwg hexec hresp hR
  refine ⟨hb', ?_, ?_, ?_, ?_, ?_, ?_⟩
  · show s.wg - 1 = (upd k _ s.jobs).countP cNL
    rw [hupd, countP_mid]; rw [countP_mid] at hwg
    simp only [cNL, hq] at hwg ⊢
    simp at hwg ⊢; omega
  · show ∀ x ∈ upd k _ s.jobs, _
    rw [hupd]; intro x hx
    rcases List.mem_append.1 hx with hx | hx
    · exact hR x (List.mem_append_left _ hx)
    · rcases List.mem_cons.1 hx with rfl | hx
      · simp [hran, hnex]
      · exact hR x (List.mem_append_right _ (List.mem_cons_of_mem _ hx))
  · intro k'
    show execCount s k' = (upd k _ s.jobs).countP (cR k')
    rw [hupd, countP_mid, hexec k', countP_mid]
    simp [cR]
  · intro k'
    show ((s.resps ++ [p]).filter (·.seq == k')).length = (upd k _ s.jobs).countP (cL k') + (dispatched s).countP (cD k')
    rw [respCount_append, hupd, countP_mid, hresp k', countP_mid]
    simp only [cL, hq, List.filter_cons, hp, List.filter_nil]
    by_cases h : j.req.seq = k' <;> simp [h] <;> omega
  · intro h
    show s.wg - 1 = 0
    rw [hB.td2 h]
  · intro hpipe
    obtain ⟨L, R, hLR, hL, hRn, hT, he⟩ := hB.pipe hpipe
    obtain ⟨R', rfl⟩ := turn_head hn hj hpipe ht hLR hL hRn
    have hupd' := upd_split hn hLR (fun j => { j with phase := .left })
    rw [hk] at hupd'
    refine ⟨L ++ [{ j with phase := .left }], R', ?_, ?_, ?_, ?_, ?_⟩
    · show upd k _ s.jobs = _
      rw [hupd']; simp
    · intro x hx
      rcases List.mem_append.1 hx with hx | hx
      · exact hL x hx
      · have : x = { j with phase := .left } := by simpa using hx
        rw [this]
    · intro x hx; exact hRn x (List.mem_cons_of_mem _ hx)
    · intro x hx; exact hT x (List.mem_of_mem_tail hx)
    · show s.execs = ((upd k _ s.jobs).filter (·.ran)).map (·.req.seq)
      rw [hupd']; rw [hLR] at he
      simpa [List.filter_append, List.filter_cons, hran] using he

theorem big_leave {s : State} (hB : Big s) (hn : JN s) {k : Nat} {j : Job} {ps : List Resp}
    (hj : getJob s k = some j) (hq : j.phase = .entered) (hw : Wrote s j.req.seq ps) :
    Big { s with jobs := upd k (fun j => { j with phase := .left }) s.jobs, resps := s.resps ++ ps, wg := s.wg - 1 } := by
  have hb := hB.base
  have hb' := base_tr hb (Tr.leave k j ps hj hq hw)
  obtain ⟨hk, A, B, hjobs⟩ := getJob_split hj
  have hupd := upd_split hn hjobs (fun j => { j with phase := .left })
  rw [hk] at hupd
  have hmem := (getJob_mem hj).1
  have hopen := hB.open_of_job hmem (by rw [hq]; simp)
  obtain ⟨p, rfl, hp⟩ := wrote_open hw hopen
  have hwg := hB.wgCount
  have hexec := hB.execC
  have hresp := hB.respC
  have hR := hB.ran
  have hjr := hB.ran j hmem
  rw [hjobs] at hwg hexec hresp hR
  refine ⟨hb', ?_, ?_, ?_, ?_, ?_, ?_⟩
  · show s.wg - 1 = (upd k _ s.jobs).countP cNL
    rw [hupd, countP_mid]; rw [countP_mid] at hwg
    simp only [cNL, hq] at hwg ⊢
    simp at hwg ⊢; omega
  · show ∀ x ∈ upd k _ s.jobs, _
    rw [hupd]; intro x hx
    rcases List.mem_append.1 hx with hx | hx
    · exact hR x (List.mem_append_left _ hx)
    · rcases List.mem_cons.1 hx with rfl | hx
      · simpa [hq] using hjr
      · exact hR x (List.mem_append_right _ (List.mem_cons_of_mem _ hx))
  · intro k'
    show execCount s k' = (upd k _ s.jobs).countP (cR k')
    rw [hupd, countP_mid, hexec k', countP_mid]
    simp [cR]
  · intro k'
    show ((s.resps ++ [p]).filter (·.seq == k')).length = (upd k _ s.jobs).countP (cL k') + (dispatched s).countP (cD k')
    rw [respCount_append, hupd, countP_mid, hresp k', countP_mid]
    simp only [cL, hq, List.filter_cons, hp, List.filter_nil]
    by_cases h : j.req.seq = k' <;> simp [h] <;> omega
  · intro h
    show s.wg - 1 = 0
    rw [hB.td2 h]
  · intro hpipe
    obtain ⟨L, R, hLR, hL, hRn, hT, he⟩ := hB.pipe hpipe
    obtain ⟨R', rfl⟩ := entered_head hmem hq hLR hL hT
    have hupd' := upd_split hn hLR (fun j => { j with phase := .left })
    rw [hk] at hupd'
    refine ⟨L ++ [{ j with phase := .left }], R', ?_, ?_, ?_, ?_, ?_⟩
    · show upd k _ s.jobs = _
      rw [hupd']; simp
    · intro x hx
      rcases List.mem_append.1 hx with hx | hx
      · exact hL x hx
      · have : x = { j with phase := .left } := by simpa using hx
        rw [this]
    · intro x hx; exact hRn x (List.mem_cons_of_mem _ hx)
    · intro x hx; exact hT x (List.mem_of_mem_tail hx)
    · show s.execs = ((upd k _ s.jobs).filter (·.ran)).map (·.req.seq)
      rw [hupd']; rw [hLR] at he
      cases hran : j.ran <;> simpa [List.filter_append, List.filter_cons, hran] using he

theorem big_enter {s : State} (hB : Big s) (hn : JN s) {k : Nat} {j : Job}
    (hj : getJob s k = some j) (hq : j.phase = .queued) (ht : jobTurn s k = true)
    (hkn : j.req.method.known = true) (hargs : (flags j.req).noRequest = Gen.noRequest ∨ j.req.badArgs = false) :
    Big { s with jobs := upd k (fun j => { j with phase := .entered, ran := true }) s.jobs, execs := s.execs ++ [k] } := by
  have hb := hB.base
  have hb' := base_tr hb (Tr.enter k j hj hq ht hkn hargs)
  obtain ⟨hk, A, B, hjobs⟩ := getJob_split hj
  have hupd := upd_split hn hjobs (fun j => { j with phase := .entered, ran := true })
  rw [hk] at hupd
  have hmem := (getJob_mem hj).1
  have hran : j.ran = false := by
    cases h : j.ran
    · rfl
    · exact absurd hq ((hB.ran j hmem).1 h).1
  have hnex : needsExec j.req = true := needsExec_of (hb.job_mem hmem).2 hkn hargs
  have hwg := hB.wgCount
  have hexec := hB.execC
  have hresp := hB.respC
  have hR := hB.ran
  rw [hjobs] at hwg hexec hresp hR
  refine ⟨hb', ?_, ?_, ?_, ?_, hB.td2, ?_⟩
  · show s.wg = (upd k _ s.jobs).countP cNL
    rw [hupd, countP_mid]; rw [countP_mid] at hwg
    simp only [cNL, hq] at hwg ⊢
    simp at hwg ⊢; omega
  · show ∀ x ∈ upd k _ s.jobs, _
    rw [hupd]; intro x hx
    rcases List.mem_append.1 hx with hx | hx
    · exact hR x (List.mem_append_left _ hx)
    · rcases List.mem_cons.1 hx with rfl | hx
      · simp [hnex]
      · exact hR x (List.mem_append_right _ (List.mem_cons_of_mem _ hx))
  · intro k'
    show ((s.execs ++ [k]).filter (· == k')).length = (upd k _ s.jobs).countP (cR k')
    have := hexec k'
    unfold execCount at this
    rw [List.filter_append, List.length_append, this, hupd, countP_mid, countP_mid]
    simp only [cR, hran, hk, List.filter_cons, List.filter_nil]
    by_cases h : k = k' <;> simp [h]
  · intro k'
    show respCount s k' = (upd k _ s.jobs).countP (cL k') + (dispatched s).countP (cD k')
    rw [hupd, countP_mid, hresp k', countP_mid]
    simp [cL, hq]
  · intro hpipe
    obtain ⟨L, R, hLR, hL, hRn, hT, he⟩ := hB.pipe hpipe
    obtain ⟨R', rfl⟩ := turn_head hn hj hpipe ht hLR hL hRn
    have hupd' := upd_split hn hLR (fun j => { j with phase := .entered, ran := true })
    rw [hk] at hupd'
    have hR'ran : ∀ x ∈ R', x.ran = false := by
      intro x hx
      have hxm : x ∈ s.jobs := by rw [hLR]; exact List.mem_append_right _ (List.mem_cons_of_mem _ hx)
      cases h : x.ran
      · rfl
      · exact absurd (hT x hx) ((hB.ran x hxm).1 h).1
    have hfil : R'.filter (·.ran) = [] := by
      rw [List.filter_eq_nil_iff]; intro x hx; simp [hR'ran x hx]
    refine ⟨L, { j with phase := .entered, ran := true } :: R', ?_, hL, ?_, ?_, ?_⟩
    · show upd k _ s.jobs = _
      rw [hupd']
    · intro x hx
      rcases List.mem_cons.1 hx with rfl | hx
      · simp
      · exact hRn x (List.mem_cons_of_mem _ hx)
    · intro x hx; exact hT x hx
    · show s.execs ++ [k] = ((upd k _ s.jobs).filter (·.ran)).map (·.req.seq)
      rw [hupd']; rw [hLR] at he
      rw [he]
      simp [List.filter_append, hran, hfil, hk]

theorem big_hret {s : State} (hB : Big s) {k : Nat} {j : Job} (v : Verdict)
    (hj : getJob s k = some j) (hq : j.phase = .entered) :
    Big { s with jobs := upd k (fun j => { j with verdict := some v }) s.jobs } := by
  have hb := hB.base
  have hb' := base_tr hb (Tr.hret k j v hj hq)
  let g : Job → Job := fun x => if x.req.seq == k then { x with verdict := some v } else x
  have hg : upd k (fun j => { j with verdict := some v }) s.jobs = s.jobs.map g := rfl
  have g1 : ∀ x, (g x).phase = x.phase := by intro x; simp only [g]; split <;> rfl
  have g2 : ∀ x, (g x).ran = x.ran := by intro x; simp only [g]; split <;> rfl
  have g3 : ∀ x, (g x).req = x.req := by intro x; simp only [g]; split <;> rfl
  have c1 : cNL ∘ g = cNL := by funext x; simp [cNL, g1]
  have c2 : ∀ k', cR k' ∘ g = cR k' := by intro k'; funext x; simp [cR, g2, g3]
  have c3 : ∀ k', cL k' ∘ g = cL k' := by intro k'; funext x; simp [cL, g1, g3]
  refine ⟨hb', ?_, ?_, ?_, ?_, hB.td2, ?_⟩
  · show s.wg = (upd k _ s.jobs).countP cNL
    rw [hg, List.countP_map, c1]; exact hB.wgCount
  · show ∀ x ∈ upd k _ s.jobs, _
    rw [hg]; intro x hx
    obtain ⟨y, hy, rfl⟩ := List.mem_map.1 hx
    rw [g1, g2, g3]; exact hB.ran y hy
  · intro k'
    show execCount s k' = (upd k _ s.jobs).countP (cR k')
    rw [hg, List.countP_map, c2]; exact hB.execC k'
  · intro k'
    show respCount s k' = (upd k _ s.jobs).countP (cL k') + (dispatched s).countP (cD k')
    rw [hg, List.countP_map, c3]; exact hB.respC k'
  · intro hpipe
    obtain ⟨L, R, hLR, hL, hRn, hT, he⟩ := hB.pipe hpipe
    refine ⟨L.map g, R.map g, ?_, ?_, ?_, ?_, ?_⟩
    · show upd k _ s.jobs = _
      rw [hg, hLR, List.map_append]
    · intro x hx; obtain ⟨y, hy, rfl⟩ := List.mem_map.1 hx; rw [g1]; exact hL y hy
    · intro x hx; obtain ⟨y, hy, rfl⟩ := List.mem_map.1 hx; rw [g1]; exact hRn y hy
    · intro x hx
      rw [← List.map_tail] at hx
      obtain ⟨y, hy, rfl⟩ := List.mem_map.1 hx; rw [g1]; exact hT y hy
    · show s.execs = ((upd k _ s.jobs).filter (·.ran)).map (·.req.seq)
      rw [hg, List.filter_map, List.map_map, he]
      have e1 : ((fun x : Job => x.ran) ∘ g) = (fun x : Job => x.ran) := by funext x; simp [g2]
      have e2 : ((fun x : Job => x.req.seq) ∘ g) = (fun x : Job => x.req.seq) := by funext x; simp [g3]
      rw [e1, e2]

theorem big_tr {s s' : State} (hB : Big s) (hn : JN s) (htr : Tr s s') : Big s' := by
  have hb := hB.base
  cases htr with
  | feedD r hw hd =>
    refine big_tr_nojob hB (Tr.feedD r hw hd) rfl rfl rfl rfl ?_ ?_
    · intro k
      show respCount s k = s.jobs.countP (cL k) + (dsp (s.reqs ++ [r]) (.decoding r) s.decodeQ).countP (cD k)
      rw [feedD_dsp hb r hw hd]; exact hB.respC k
    · intro h; simp at h
  | feedQ r hw hd =>
    refine big_tr_nojob hB (Tr.feedQ r hw hd) rfl rfl rfl rfl ?_ ?_
    · intro k
      show respCount s k = s.jobs.countP (cL k) + (dsp (s.reqs ++ [r]) s.reader (s.decodeQ ++ [r])).countP (cD k)
      rw [feedQ_dsp hb r hd]; exact hB.respC k
    · intro h
      have h' : s.reader = .waited ∨ s.reader = .served := h
      rw [hw] at h'; simp at h'
  | eof hw =>
    refine big_tr_nojob hB (Tr.eof hw) rfl rfl rfl rfl ?_ ?_
    · intro k
      show respCount s k = s.jobs.countP (cL k) + (dsp s.reqs .ended s.decodeQ).countP (cD k)
      rw [same_dsp (by rw [hw]; rfl)]; exact hB.respC k
    · intro h; simp at h
  | skip r rd dq hdec hc =>
    refine big_tr_nojob hB (Tr.skip r rd dq hdec hc) rfl rfl rfl rfl ?_ ?_
    · intro k
      show respCount s k = s.jobs.countP (cL k) + (dsp s.reqs rd dq).countP (cD k)
      have hcd : cD k r = false := by
        rcases hc with hc | hc | hc
        · simp [cD, needsResponse, hc]
        · rw [hdec.open hb] at hc; cases hc
        · simp [cD, needsResponse, hc]
      rw [dec_dsp hb hdec, List.countP_append, List.countP_singleton, hcd]
      exact hB.respC k
    · intro h; exact absurd (Or.inr h) (hdec.rd_busy hb)
  | answer r rd dq p hdec c1 c2 c3 c4 c5 =>
    refine big_tr_nojob hB (Tr.answer r rd dq p hdec c1 c2 c3 c4 c5) rfl rfl rfl rfl ?_ ?_
    · intro k
      show ((s.resps ++ [p]).filter (·.seq == k)).length = s.jobs.countP (cL k) + (dsp s.reqs rd dq).countP (cD k)
      have hcd : cD k r = (r.seq == k) := by simp [cD, needsResponse, isJob, c1, c3, c4]
      rw [respCount_append, dec_dsp hb hdec, List.countP_append, List.countP_singleton, hcd, hB.respC k]
      simp only [List.filter_cons, c5, List.filter_nil, Nat.add_assoc]
      by_cases hk : r.seq = k <;> simp [hk]
    · intro h; exact absurd (Or.inr h) (hdec.rd_busy hb)
  | newJob r rd dq hdec c1 c2 c3 => exact big_newJob hB hdec c1 c2 c3
  | early k j ps hj hq ht hne hw => exact big_early hB hn hj hq ht hne hw
  | enter k j hj hq ht hk hargs => exact big_enter hB hn hj hq ht hk hargs
  | hret k j v hj hq => exact big_hret hB v hj hq
  | leave k j ps hj hq hw => exact big_leave hB hn hj hq hw
  | drain hr hq =>
    refine big_tr_nojob hB (Tr.drain hr hq) rfl rfl rfl rfl ?_ ?_
    · intro k
      show respCount s k = s.jobs.countP (cL k) + (dsp s.reqs .drained s.decodeQ).countP (cD k)
      rw [same_dsp (by rw [hr]; rfl)]; exact hB.respC k
    · intro h; simp at h
  | wait hr hwg =>
    refine big_tr_nojob hB (Tr.wait hr hwg) rfl rfl rfl rfl ?_ (fun _ => hwg)
    intro k
    show respCount s k = s.jobs.countP (cL k) + (dsp s.reqs .waited s.decodeQ).countP (cD k)
    rw [same_dsp (by rw [hr]; rfl)]; exact hB.respC k
  | closeCodec hr =>
    refine big_tr_nojob hB (Tr.closeCodec hr) rfl rfl rfl rfl ?_ (fun _ => hB.td2 (Or.inl hr))
    intro k
    show respCount s k = s.jobs.countP (cL k) + (dsp s.reqs .served s.decodeQ).countP (cD k)
    rw [same_dsp (by rw [hr]; rfl)]; exact hB.respC k

/-! ### unique sequence numbers -/

theorem tr_reqs {s s' : State} (htr : Tr s s') : ∃ rs, s'.reqs = s.reqs ++ rs := by
  cases htr
  case feedD r _ _ => exact ⟨[r], rfl⟩
  case feedQ r _ _ => exact ⟨[r], rfl⟩
  all_goals exact ⟨[], (List.append_nil _).symm⟩

theorem unique_mono {s s' : State} (h : ∃ rs, s'.reqs = s.reqs ++ rs) (hu : UniqueSeq s') : UniqueSeq s := by
  obtain ⟨rs, h⟩ := h
  unfold UniqueSeq at *
  rw [h, List.filter_append, List.map_append] at hu
  exact hu.sublist (List.sublist_append_left _ _)

theorem accepts_reqs (hf : allFlags = true) {s : State} {tr : List Ev} {s' : State} (h : Accepts s tr s') :
    Base s → ∃ rs, s'.reqs = s.reqs ++ rs := by
  induction h with
  | nil _ => exact fun _ => ⟨[], (List.append_nil _).symm⟩
  | cons hs _ ih =>
    intro hb
    obtain ⟨r1, h1⟩ := tr_reqs (step_shape hf hb.td hs)
    obtain ⟨r2, h2⟩ := ih (base_step hf hb hs)
    exact ⟨r1 ++ r2, by rw [h2, h1, List.append_assoc]⟩

theorem isJob_not_junk {r : Req} (h : isJob r = true) : r.junk = false := by
  unfold isJob at h
  simp only [Bool.and_eq_true, Bool.not_eq_true'] at h
  exact h.1

theorem jn_of_unique {s : State} (hb : Base s) (hu : UniqueSeq s) : JN s := by
  unfold JN
  unfold UniqueSeq at hu
  have h1 : List.Sublist (s.jobs.map (·.req)) (s.reqs.filter isJob) := by
    rw [← hb.fifo]; exact List.sublist_append_left _ _
  have h2 : s.reqs.filter isJob = (s.reqs.filter (fun r => !r.junk)).filter isJob := by
    rw [List.filter_filter]
    apply List.filter_congr
    intro r _
    cases h : isJob r
    · rfl
    · simp [isJob_not_junk h]
  have h3 : List.Sublist (s.jobs.map (·.req)) (s.reqs.filter (fun r => !r.junk)) := by
    rw [h2] at h1; exact h1.trans List.filter_sublist
  have h4 := (h3.map (·.seq))
  rw [List.map_map] at h4
  exact hu.sublist h4

theorem big_step (hf : allFlags = true) {s s' : State} {e : Ev} (hB : Big s) (hu : UniqueSeq s')
    (hs : step s e = some s') : Big s' := by
  have htr := step_shape hf hB.base.td hs
  exact big_tr hB (jn_of_unique hB.base (unique_mono (tr_reqs htr) hu)) htr

theorem big_accepts_gen (hf : allFlags = true) {s : State} {tr : List Ev} {s' : State} (h : Accepts s tr s') :
    Big s → UniqueSeq s' → Big s' := by
  induction h with
  | nil _ => exact fun hB _ => hB
  | cons hs hrest ih =>
    intro hB hu
    have hb' := base_step hf hB.base hs
    exact ih (big_step hf hB (unique_mono (accepts_reqs hf hrest hb') hu) hs) hu

theorem big_accepts (hf : allFlags = true) {cfg : Cfg} {tr : List Ev} {s : State}
    (h : Accepts (init cfg) tr s) (hu : UniqueSeq s) : Big s :=
  big_accepts_gen hf h (big_init cfg) hu

/-! ### `Inv` is a consequence of `Big` -/

theorem pipe_entered_le {L R : List Job} (hL : ∀ j ∈ L, j.phase = .left) (hT : ∀ j ∈ R.tail, j.phase = .queued) :
    ((L ++ R).filter (·.phase == .entered)).length ≤ 1 := by
  have h1 : L.filter (·.phase == .entered) = [] := by
    rw [List.filter_eq_nil_iff]; intro x hx; simp [hL x hx]
  rw [List.filter_append, h1, List.nil_append]
  cases R with
  | nil => simp
  | cons x R' =>
    have h2 : R'.filter (·.phase == .entered) = [] := by
      rw [List.filter_eq_nil_iff]; intro y hy; simp [hT y hy]
    rw [List.filter_cons, h2]
    split <;> simp

theorem Big.inv {s : State} (hB : Big s) : Inv s := by
  refine ⟨hB.base.fifo, ?_, ?_, ?_, ⟨hB.base.td, hB.td2⟩, hB.base.mode⟩
  · rw [hB.wgCount, List.countP_eq_length_filter]; rfl
  · intro hp
    obtain ⟨L, R, hLR, hL, hRn, hT, he⟩ := hB.pipe hp
    refine ⟨he, ?_, L.length, ?_, ?_, ?_⟩
    · rw [hLR]; exact pipe_entered_le hL hT
    · rw [hLR, List.take_left, List.all_eq_true]
      intro x hx; simp [hL x hx]
    · rw [hLR, List.drop_left, List.all_eq_true]
      intro x hx; simpa using hRn x hx
    · rw [hLR, ← List.tail_drop, List.drop_left, List.all_eq_true]
      intro x hx; simp [hT x hx]
  · intro j hj hr
    exact (hB.ran j hj).1 hr

/-! ### item 1: `Inv` along every run (under unique sequence numbers) -/

theorem inv_init (cfg : Cfg) : Inv (init cfg) := (big_init cfg).inv

/-- `Inv` alone is not inductive (see the report); the inductive statement is about `Big`, which
    implies `Inv`, and needs the successor state to have unique sequence numbers. -/
theorem inv_step_of_flags (hf : allFlags = true) (s s' : State) (e : Ev) (h : Big s) (hu : UniqueSeq s')
    (hs : step s e = some s') : Big s' ∧ Inv s' :=
  have hB := big_step hf h hu hs
  ⟨hB, hB.inv⟩

theorem inv_step (s s' : State) (e : Ev) (h : Big s) (hu : UniqueSeq s') (hs : step s e = some s') :
    Big s' ∧ Inv s' :=
  inv_step_of_flags allFlags_true s s' e h hu hs

theorem inv_accepts_of_flags (hf : allFlags = true) {cfg : Cfg} {tr : List Ev} {s : State}
    (h : Accepts (init cfg) tr s) (hu : UniqueSeq s) : Inv s :=
  (big_accepts hf h hu).inv

theorem inv_accepts {cfg : Cfg} {tr : List Ev} {s : State} (h : Accepts (init cfg) tr s) (hu : UniqueSeq s) :
    Inv s :=
  inv_accepts_of_flags allFlags_true h hu

/-! ### item 3: at most once -/

theorem jn_count {s : State} (hn : JN s) (k : Nat) : s.jobs.countP (fun j => j.req.seq == k) ≤ 1 := by
  have h := (List.nodup_iff_count.1 hn) k
  rw [List.count_eq_countP, List.countP_map] at h
  exact h

theorem exec_at_most_once_of_flags (hf : allFlags = true) {cfg : Cfg} {tr : List Ev} {s : State}
    (h : Accepts (init cfg) tr s) (hu : UniqueSeq s) (k : Nat) : execCount s k ≤ 1 := by
  have hB := big_accepts hf h hu
  rw [hB.execC k]
  refine Nat.le_trans (List.countP_mono_left ?_) (jn_count (jn_of_unique hB.base hu) k)
  intro j _ hj
  simp only [cR, Bool.and_eq_true] at hj
  exact hj.2

theorem exec_at_most_once {cfg : Cfg} {tr : List Ev} {s : State}
    (h : Accepts (init cfg) tr s) (hu : UniqueSeq s) (k : Nat) : execCount s k ≤ 1 :=
  exec_at_most_once_of_flags allFlags_true h hu k

theorem countP_split {α : Type} (p a : α → Bool) (l : List α) :
    l.countP (fun x => p x && a x) + l.countP (fun x => p x && !a x) = l.countP p := by
  induction l with
  | nil => rfl
  | cons x xs ih =>
    simp only [List.countP_cons]
    cases p x <;> cases a x <;> simp <;> omega

theorem Base.jobs_eq_filter {s : State} (hb : Base s) : s.jobs.map (·.req) = (dispatched s).filter isJob := by
  have h := hb.fifo
  rw [← hb.split, List.filter_append] at h
  exact List.append_cancel_right h

theorem unique_count {s : State} (hu : UniqueSeq s) (k : Nat) :
    s.reqs.countP (fun r => !r.junk && r.seq == k) ≤ 1 := by
  have h := (List.nodup_iff_count.1 hu) k
  rw [List.count_eq_countP, List.countP_map, List.countP_filter] at h
  refine Nat.le_trans (List.countP_mono_left ?_) h
  intro r _ hr
  simp only [Bool.and_eq_true, Bool.not_eq_true', beq_iff_eq] at hr
  simp [hr.1, hr.2]

theorem resp_le_D {s : State} (hb : Base s) (k : Nat) :
    s.jobs.countP (cL k) + (dispatched s).countP (cD k) ≤
      (dispatched s).countP (fun r => !r.junk && r.seq == k) := by
  let q : Req → Bool := fun r => !r.junk && r.seq == k
  have h1 : s.jobs.countP (cL k) ≤ (dispatched s).countP (fun r => q r && isJob r) := by
    have e1 : s.jobs.countP (cL k) ≤ s.jobs.countP ((fun r : Req => r.seq == k) ∘ (·.req)) := by
      apply List.countP_mono_left
      intro j _ hj
      simp only [cL, Bool.and_eq_true] at hj
      exact hj.2
    rw [← List.countP_map, hb.jobs_eq_filter, List.countP_filter] at e1
    refine Nat.le_trans e1 (List.countP_mono_left ?_)
    intro r _ hr
    simp only [Bool.and_eq_true, beq_iff_eq] at hr
    simp [q, hr.1, hr.2, isJob_not_junk hr.2]
  have h2 : (dispatched s).countP (cD k) ≤ (dispatched s).countP (fun r => q r && !isJob r) := by
    apply List.countP_mono_left
    intro r _ hr
    simp only [cD, needsResponse, Bool.and_eq_true, Bool.not_eq_true', beq_iff_eq] at hr
    simp [q, hr.1.1.1, hr.1.2, hr.2]
  have h3 := countP_split q isJob (dispatched s)
  show _ ≤ (dispatched s).countP q
  omega

theorem resp_bound {s : State} (hb : Base s) (hu : UniqueSeq s) (k : Nat) :
    s.jobs.countP (cL k) + (dispatched s).countP (cD k) ≤ 1 := by
  have h0 := resp_le_D hb k
  have h4 : (dispatched s).countP (fun r => !r.junk && r.seq == k) ≤ s.reqs.countP (fun r => !r.junk && r.seq == k) := by
    rw [← hb.split, List.countP_append]; omega
  have h5 := unique_count hu k
  omega

theorem resp_at_most_once_of_flags (hf : allFlags = true) {cfg : Cfg} {tr : List Ev} {s : State}
    (h : Accepts (init cfg) tr s) (hu : UniqueSeq s) (k : Nat) : respCount s k ≤ 1 := by
  have hB := big_accepts hf h hu
  rw [hB.respC k]
  exact resp_bound hB.base hu k

theorem resp_at_most_once {cfg : Cfg} {tr : List Ev} {s : State}
    (h : Accepts (init cfg) tr s) (hu : UniqueSeq s) (k : Nat) : respCount s k ≤ 1 :=
  resp_at_most_once_of_flags allFlags_true h hu k

/-! ### item 4: complete at the end -/

theorem served_complete_of_flags (hf : allFlags = true) {cfg : Cfg} {tr : List Ev} {s : State}
    (h : Accepts (init cfg) tr s) (hu : UniqueSeq s) (hserved : s.reader = .served) (r : Req) (hr : r ∈ s.reqs) :
    (needsExec r = true → execCount s r.seq = 1) ∧ (needsResponse r = true → respCount s r.seq = 1) := by
  have hB := big_accepts hf h hu
  have hb := hB.base
  have hU : undispatched s = [] := hb.td (Or.inr (Or.inr hserved))
  have hwg : s.wg = 0 := hB.td2 (Or.inr hserved)
  have hD : dispatched s = s.reqs := by
    have := hb.split; rw [hU, List.append_nil] at this; exact this
  have hleft : ∀ j ∈ s.jobs, j.phase = .left := by
    intro j hj
    rw [hB.wgCount, List.countP_eq_zero] at hwg
    have := hwg j hj
    simpa [cNL] using this
  have hjob : isJob r = true → ∃ j ∈ s.jobs, j.req = r := by
    intro hj
    have h1 : r ∈ s.jobs.map (·.req) := by
      rw [hb.jobs_eq_filter, hD]; exact List.mem_filter.2 ⟨hr, hj⟩
    obtain ⟨j, hjm, hjr⟩ := List.mem_map.1 h1
    exact ⟨j, hjm, hjr⟩
  have he1 := exec_at_most_once_of_flags hf h hu r.seq
  have hr1 := resp_at_most_once_of_flags hf h hu r.seq
  constructor
  · intro hne
    have hj : isJob r = true := by
      unfold needsExec at hne
      simp only [Bool.and_eq_true] at hne
      exact hne.1.1
    obtain ⟨j, hjm, hjr⟩ := hjob hj
    have hran : j.ran = true := (hB.ran j hjm).2 ⟨by rw [hleft j hjm]; simp, by rw [hjr]; exact hne⟩
    have hpos : 0 < s.jobs.countP (cR r.seq) :=
      List.countP_pos_iff.2 ⟨j, hjm, by simp [cR, hran, hjr]⟩
    rw [← hB.execC] at hpos
    omega
  · intro hnr
    have hpos : 0 < s.jobs.countP (cL r.seq) + (dispatched s).countP (cD r.seq) := by
      cases hj : isJob r
      · have : 0 < (dispatched s).countP (cD r.seq) :=
          List.countP_pos_iff.2 ⟨r, by rw [hD]; exact hr, by simp [cD, hnr, hj]⟩
        omega
      · obtain ⟨j, hjm, hjr⟩ := hjob hj
        have : 0 < s.jobs.countP (cL r.seq) :=
          List.countP_pos_iff.2 ⟨j, hjm, by simp [cL, hleft j hjm, hjr]⟩
        omega
    rw [← hB.respC] at hpos
    omega

theorem served_complete {cfg : Cfg} {tr : List Ev} {s : State}
    (h : Accepts (init cfg) tr s) (hu : UniqueSeq s) (hserved : s.reader = .served) (_hnc : s.crashed = none)
    (r : Req) (hr : r ∈ s.reqs) :
    (needsExec r = true → execCount s r.seq = 1) ∧ (needsResponse r = true → respCount s r.seq = 1) :=
  served_complete_of_flags allFlags_true h hu hserved r hr

/-! ### item 5: pipelining -/

theorem pipe_serial_of_flags (hf : allFlags = true) {cfg : Cfg} {tr : List Ev} {s : State}
    (h : Accepts (init cfg) tr s) (hu : UniqueSeq s) (hp : s.cfg.pipe = true) :
    (s.jobs.filter (·.phase == .entered)).length ≤ 1 ∧ s.execs = (s.jobs.filter (·.ran)).map (·.req.seq) := by
  have hI := (big_accepts hf h hu).inv.pipeOrder hp
  exact ⟨hI.2.1, hI.1⟩

/-- needs `UniqueSeq`: two jobs with the same sequence number are entered together by one `.enter` -/
theorem pipe_serial {cfg : Cfg} {tr : List Ev} {s : State}
    (h : Accepts (init cfg) tr s) (hu : UniqueSeq s) (hp : s.cfg.pipe = true) :
    (s.jobs.filter (·.phase == .entered)).length ≤ 1 ∧ s.execs = (s.jobs.filter (·.ran)).map (·.req.seq) :=
  pipe_serial_of_flags allFlags_true h hu hp

/-! ### item 5: with pipelining the job responses are written in request order -/

/-- `p` answers a dispatched job (its sequence number is that of some job) -/
def isJobResp (js : List Job) (p : Resp) : Bool := js.any (fun j => j.req.seq == p.seq)

def PR (s : State) : Prop :=
  s.cfg.pipe = true →
    (s.resps.filter (isJobResp s.jobs)).map (·.seq) = (s.jobs.filter (·.phase == .left)).map (·.req.seq)

theorem upd_map_seq {k : Nat} {f : Job → Job} (hf : ∀ j, (f j).req = j.req) (js : List Job) :
    (upd k f js).map (·.req.seq) = js.map (·.req.seq) := by
  unfold upd
  rw [List.map_map]
  apply List.map_congr_left
  intro j _
  simp only [Function.comp]
  split
  · rw [hf j]
  · rfl

theorem isJobResp_eq (js : List Job) (p : Resp) : isJobResp js p = (js.map (·.req.seq)).any (· == p.seq) := by
  unfold isJobResp; rw [List.any_map]; rfl

theorem isJobResp_upd {k : Nat} {f : Job → Job} (hf : ∀ j, (f j).req = j.req) (js : List Job) :
    isJobResp (upd k f js) = isJobResp js := by
  funext p
  rw [isJobResp_eq, isJobResp_eq, upd_map_seq hf]

theorem fresh_D {s : State} (hb : Base s) (hu : UniqueSeq s) {r : Req} (hr : r ∈ undispatched s)
    (hj : r.junk = false) : (dispatched s).countP (fun x => !x.junk && x.seq == r.seq) = 0 := by
  have h5 := unique_count hu r.seq
  rw [← hb.split, List.countP_append] at h5
  have : 0 < (undispatched s).countP (fun x => !x.junk && x.seq == r.seq) :=
    List.countP_pos_iff.2 ⟨r, hr, by simp [hj]⟩
  omega

theorem fresh_jobs {s : State} (hb : Base s) {n : Nat}
    (h0 : (dispatched s).countP (fun x => !x.junk && x.seq == n) = 0) : ∀ j ∈ s.jobs, j.req.seq ≠ n := by
  intro j hj heq
  have hm : j.req ∈ (dispatched s).filter isJob := by
    rw [← hb.jobs_eq_filter]; exact List.mem_map.2 ⟨j, hj, rfl⟩
  obtain ⟨h1, h2⟩ := List.mem_filter.1 hm
  rw [List.countP_eq_zero] at h0
  exact h0 j.req h1 (by simp [isJob_not_junk h2, heq])

theorem fresh_resps {s : State} (hB : Big s) {n : Nat}
    (h0 : (dispatched s).countP (fun x => !x.junk && x.seq == n) = 0) : ∀ p ∈ s.resps, p.seq ≠ n := by
  have h1 := hB.respC n
  have h2 := resp_le_D hB.base n
  have h3 : respCount s n = 0 := by omega
  unfold respCount at h3
  rw [List.length_eq_zero_iff, List.filter_eq_nil_iff] at h3
  intro p hp heq
  exact h3 p hp (by simp [heq])

theorem filter_left_nil {R : List Job} (h : ∀ x ∈ R, x.phase ≠ .left) : R.filter (·.phase == .left) = [] := by
  rw [List.filter_eq_nil_iff]; intro x hx; simpa using h x hx

theorem pr_finish {s : State} (hn : JN s) (hpr : PR s) {k : Nat} {j : Job} {p : Resp}
    (hk : j.req.seq = k) (hp : p.seq = k) {L R' : List Job} (hLR : s.jobs = L ++ j :: R')
    (hRn : ∀ x ∈ j :: R', x.phase ≠ .left) (hpipe : s.cfg.pipe = true) :
    ((s.resps ++ [p]).filter (isJobResp (upd k (fun j => { j with phase := .left }) s.jobs))).map (·.seq) =
      ((upd k (fun j => { j with phase := .left }) s.jobs).filter (·.phase == .left)).map (·.req.seq) := by
  have hupd := upd_split hn hLR (fun j => { j with phase := .left })
  rw [hk] at hupd
  have h1 := hpr hpipe
  have hjp : isJobResp s.jobs p = true := by
    unfold isJobResp
    rw [List.any_eq_true]
    exact ⟨j, by rw [hLR]; exact List.mem_append_right _ List.mem_cons_self, by simp [hk, hp]⟩
  have hj : (j.phase == JobPhase.left) = false := by simpa using hRn j List.mem_cons_self
  have hR' := filter_left_nil (fun x hx => hRn x (List.mem_cons_of_mem _ hx))
  rw [isJobResp_upd (f := fun j => { j with phase := .left }) (fun _ => rfl), List.filter_append, List.map_append, h1, hupd, hLR]
  rw [hLR] at hjp
  simp [List.filter_append, hjp, hj, hR', hp, hk]

theorem pr_tr {s s' : State} (hB : Big s) (hu : UniqueSeq s) (hpr : PR s) (htr : Tr s s') : PR s' := by
  have hb := hB.base
  have hn := jn_of_unique hb hu
  cases htr with
  | feedD r hw hd => exact hpr
  | feedQ r hw hd => exact hpr
  | eof hw => exact hpr
  | skip r rd dq hdec hc => exact hpr
  | answer r rd dq p hdec c1 c2 c3 c4 c5 =>
    intro hpipe
    show ((s.resps ++ [p]).filter (isJobResp s.jobs)).map (·.seq) = _
    have hr : r ∈ undispatched s := by rw [undispatched_eq, hdec.und_eq hb]; exact List.mem_cons_self
    have hfj := fresh_jobs hb (fresh_D hb hu hr c1)
    have hnp : isJobResp s.jobs p = false := by
      unfold isJobResp
      rw [List.any_eq_false]
      intro j hj; rw [c5]; simpa using hfj j hj
    rw [List.filter_append, List.filter_cons, hnp]
    simpa using hpr hpipe
  | newJob r rd dq hdec c1 c2 c3 =>
    intro hpipe
    show (s.resps.filter (isJobResp (s.jobs ++ [({ req := r } : Job)]))).map (·.seq) =
      ((s.jobs ++ [({ req := r } : Job)]).filter (·.phase == .left)).map (·.req.seq)
    have hr : r ∈ undispatched s := by rw [undispatched_eq, hdec.und_eq hb]; exact List.mem_cons_self
    have hfr := fresh_resps hB (fresh_D hb hu hr c1)
    have hcong : s.resps.filter (isJobResp (s.jobs ++ [({ req := r } : Job)])) = s.resps.filter (isJobResp s.jobs) := by
      apply List.filter_congr
      intro p hp
      unfold isJobResp
      rw [List.any_append]
      have : (r.seq == p.seq) = false := by
        have := hfr p hp
        simpa using fun h => this h.symm
      simp [this]
    rw [hcong, List.filter_append, hpr hpipe]
    simp
  | early k j ps hj hq ht hne hw =>
    intro hpipe
    obtain ⟨L, R, hLR, hL, hRn, hT, he⟩ := hB.pipe hpipe
    obtain ⟨R', rfl⟩ := turn_head hn hj hpipe ht hLR hL hRn
    have hmem := (getJob_mem hj).1
    obtain ⟨p, rfl, hp⟩ := wrote_open hw (hB.open_of_job hmem (by rw [hq]; simp))
    have hk := (getJob_mem hj).2
    exact pr_finish hn hpr hk (hp.trans hk) hLR hRn hpipe
  | enter k j hj hq ht hk hargs =>
    intro hpipe
    show (s.resps.filter (isJobResp (upd k _ s.jobs))).map (·.seq) = ((upd k _ s.jobs).filter (·.phase == .left)).map (·.req.seq)
    obtain ⟨hk', A, B, hjobs⟩ := getJob_split hj
    have hupd := upd_split hn hjobs (fun j => { j with phase := .entered, ran := true })
    rw [hk'] at hupd
    have h1 := hpr hpipe
    rw [isJobResp_upd (f := fun j => { j with phase := .entered, ran := true }) (fun _ => rfl), h1, hupd, hjobs]
    simp [List.filter_append, hq]
  | hret k j v hj hq =>
    intro hpipe
    show (s.resps.filter (isJobResp (upd k _ s.jobs))).map (·.seq) = ((upd k _ s.jobs).filter (·.phase == .left)).map (·.req.seq)
    obtain ⟨hk', A, B, hjobs⟩ := getJob_split hj
    have hupd := upd_split hn hjobs (fun j => { j with verdict := some v })
    rw [hk'] at hupd
    have h1 := hpr hpipe
    rw [isJobResp_upd (f := fun j => { j with verdict := some v }) (fun _ => rfl), h1, hupd, hjobs]
    simp [List.filter_append, hq]
  | leave k j ps hj hq hw =>
    intro hpipe
    obtain ⟨L, R, hLR, hL, hRn, hT, he⟩ := hB.pipe hpipe
    have hmem := (getJob_mem hj).1
    obtain ⟨R', rfl⟩ := entered_head hmem hq hLR hL hT
    obtain ⟨p, rfl, hp⟩ := wrote_open hw (hB.open_of_job hmem (by rw [hq]; simp))
    have hk := (getJob_mem hj).2
    exact pr_finish hn hpr hk (hp.trans hk) hLR hRn hpipe
  | drain hr hq => exact hpr
  | wait hr hwg => exact hpr
  | closeCodec hr => exact hpr

theorem pr_accepts_gen (hf : allFlags = true) {s : State} {tr : List Ev} {s' : State} (h : Accepts s tr s') :
    Big s → PR s → UniqueSeq s' → PR s' := by
  induction h with
  | nil _ => exact fun _ hpr _ => hpr
  | cons hs hrest ih =>
    intro hB hpr hu
    have hb' := base_step hf hB.base hs
    have hu' := unique_mono (accepts_reqs hf hrest hb') hu
    have htr := step_shape hf hB.base.td hs
    exact ih (big_step hf hB hu' hs) (pr_tr hB (unique_mono (tr_reqs htr) hu') hpr htr) hu

theorem pipe_response_order_of_flags (hf : allFlags = true) {cfg : Cfg} {tr : List Ev} {s : State}
    (h : Accepts (init cfg) tr s) (hp : s.cfg.pipe = true) (hu : UniqueSeq s) :
    (s.resps.filter (fun p => (s.jobs.any (fun j => j.req.seq == p.seq)))).map (·.seq) =
      ((s.jobs.filter (·.phase == .left)).map (·.req.seq)) :=
  pr_accepts_gen hf h (big_init cfg) (fun _ => rfl) hu hp

/-- C05: with pipelining the responses of the dispatched jobs are written in dispatch
    (= arrival) order -/
theorem pipe_response_order {cfg : Cfg} {tr : List Ev} {s : State}
    (h : Accepts (init cfg) tr s) (hp : s.cfg.pipe = true) (hu : UniqueSeq s) :
    (s.resps.filter (fun p => (s.jobs.any (fun j => j.req.seq == p.seq)))).map (·.seq) =
      ((s.jobs.filter (·.phase == .left)).map (·.req.seq)) :=
  pipe_response_order_of_flags allFlags_true h hp hu

end RpcVerif.S
