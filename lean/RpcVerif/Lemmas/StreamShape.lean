import RpcVerif.Model.StreamInv
/-
  T (the stream layer of one connection), part 1: the source facts, lemmas about one end of a
  stream, and the transitions `Tr` into which every step of T decomposes (`step_shape`).
-/
namespace RpcVerif.T
open RpcVerif

/-! ### the source facts -/

theorem allFlags_true : allFlags = true := by decide

theorem allFlags_split (hf : allFlags = true) :
    Gen.streamAckBeforeHandler = true ∧ Gen.streamReaderFlipsPhase = true ∧ Gen.streamClientTeardownStopsStreams = true ∧
    Gen.streamServerTeardownClosesStreams = true ∧ Gen.streamCloseRequestClosesServerStream = true ∧
    Gen.streamCloseStopsBeforeHandshake = true ∧ Gen.streamStopSetsFlagAndBroadcasts = true := by
  unfold allFlags at hf
  simp only [Bool.and_eq_true] at hf
  obtain ⟨⟨⟨⟨⟨⟨h1, h2⟩, h3⟩, h4⟩, h5⟩, h6⟩, h7⟩ := hf
  exact ⟨h1, h2, h3, h4, h5, h6, h7⟩

/-! ### one end of a stream -/

theorem stop_eq (hf : allFlags = true) (e : End) :
    e.stop = if e.waiting then { e with closed := true, waiting := false, readErrs := e.readErrs + 1 } else { e with closed := true } := by
  obtain ⟨-, -, -, -, -, -, h7⟩ := allFlags_split hf
  unfold End.stop
  simp only [h7, Bool.and_true]

theorem stop_closed (e : End) : (e.stop).closed = true := by
  unfold End.stop; split <;> rfl

theorem stop_waiting (hf : allFlags = true) (e : End) : (e.stop).waiting = false := by
  rw [stop_eq hf]; split
  · rfl
  · rename_i h; simpa using h

theorem stop_events (e : End) : (e.stop).events = e.events := by
  unfold End.stop; split <;> rfl

theorem stop_delivered (e : End) : (e.stop).delivered = e.delivered := by
  unfold End.stop; split <;> rfl

theorem stop_written (e : End) : (e.stop).written = e.written := by
  unfold End.stop; split <;> rfl

theorem trigger_closed (e : End) (v : Nat) : (e.trigger v).closed = e.closed := by
  unfold End.trigger; split <;> rfl

theorem trigger_written (e : End) (v : Nat) : (e.trigger v).written = e.written := by
  unfold End.trigger; split <;> rfl

/-- the per-end invariant: a stopped end has no parked reader; a parked reader has an empty queue -/
def EndOk (e : End) : Prop := (e.closed = true → e.waiting = false) ∧ (e.waiting = true → e.events = [])

theorem endOk_default : EndOk {} := ⟨fun _ => rfl, fun _ => rfl⟩

theorem endOk_stop (hf : allFlags = true) (e : End) (_h : EndOk e) : EndOk e.stop := by
  refine ⟨fun _ => stop_waiting hf e, fun hw => ?_⟩
  rw [stop_waiting hf e] at hw; cases hw

theorem trigger_hist (e : End) (v : Nat) (h : EndOk e) :
    (e.trigger v).delivered ++ (e.trigger v).events = e.delivered ++ e.events ++ [v] := by
  unfold End.trigger
  split
  · rename_i hw
    simp only [Bool.and_eq_true, Bool.not_eq_true'] at hw
    simp only [h.2 hw.1, List.append_nil]
  · simp only [List.append_assoc]

theorem endOk_trigger (e : End) (v : Nat) (h : EndOk e) : EndOk (e.trigger v) := by
  unfold End.trigger
  split
  · rename_i hw
    simp only [Bool.and_eq_true, Bool.not_eq_true'] at hw
    exact ⟨fun _ => rfl, fun hh => by cases hh⟩
  · rename_i hw
    refine ⟨h.1, fun hh => ?_⟩
    exfalso; apply hw
    have hh' : e.waiting = true := hh
    have hc : e.closed = false := by
      rcases Bool.eq_false_or_eq_true e.closed with hc | hc
      · rw [h.1 hc] at hh'; cases hh'
      · exact hc
    simp only [hh', hc, Bool.not_false, Bool.and_self]

theorem read_hist (e e' : End) (h : e.read = some e') :
    e'.delivered ++ e'.events = e.delivered ++ e.events ∧ e'.closed = e.closed ∧ e'.written = e.written := by
  unfold End.read at h
  split at h
  · cases h
  split at h
  · cases h; exact ⟨rfl, rfl, rfl⟩
  split at h
  · rename_i v rest hev
    cases h
    simp only [hev, List.append_assoc, List.singleton_append, and_self]
  · cases h; exact ⟨rfl, rfl, rfl⟩

theorem endOk_read (e e' : End) (h : e.read = some e') (ho : EndOk e) : EndOk e' := by
  unfold End.read at h
  split at h
  · cases h
  rename_i hw
  split at h
  · cases h; exact ho
  rename_i hc
  split at h
  · cases h
    exact ⟨fun _ => by simpa using hw, fun hh => by rw [Bool.not_eq_true] at hw; rw [hw] at hh; cases hh⟩
  · rename_i hev
    cases h
    exact ⟨fun hh => by exact absurd hh hc, fun _ => hev⟩

/-! ### vocabulary for the transitions -/

def updC (q : Nat) (g : CStream → CStream) (cs : List CStream) : List CStream :=
  cs.map fun c => if c.seq == q then g c else c
def updS (q : Nat) (g : SStream → SStream) (ss : List SStream) : List SStream :=
  ss.map fun c => if c.seq == q then g c else c
def pushC (s : State) (f : Frame) : List Frame := if s.cut then s.c2s else s.c2s ++ [f]
def pushS (s : State) (f : Frame) : List Frame := if s.cut || s.sTornDown then s.s2c else s.s2c ++ [f]
/-- what `cTrigger` does to one stream -/
def trigC (v : Nat) (c : CStream) : CStream := if c.phase == .streaming then { c with e := c.e.trigger v } else c

theorem setC_eq (s : State) (q : Nat) (g : CStream → CStream) : setC s q g = { s with cs := updC q g s.cs } := rfl
theorem setS_eq (s : State) (q : Nat) (g : SStream → SStream) : setS s q g = { s with ss := updS q g s.ss } := rfl
theorem cTrigger_eq (s : State) (q v : Nat) : cTrigger s q v = { s with cs := updC q (trigC v) s.cs } := rfl
theorem sendC_eq (s : State) (f : Frame) : sendC s f = { s with c2s := pushC s f } := by
  unfold sendC pushC; split <;> rfl
theorem sendS_eq (s : State) (f : Frame) : sendS s f = { s with s2c := pushS s f } := by
  unfold sendS pushS; split <;> rfl

theorem updS_none {q : Nat} {g : SStream → SStream} {ss : List SStream} (h : ∀ t ∈ ss, t.seq ≠ q) : updS q g ss = ss := by
  unfold updS
  induction ss with
  | nil => rfl
  | cons a l ih =>
    have ha : a.seq ≠ q := h a (List.mem_cons_self ..)
    have hl : ∀ t ∈ l, t.seq ≠ q := fun t ht => h t (List.mem_cons_of_mem _ ht)
    simp only [List.map_cons, beq_iff_eq, ha, ↓reduceIte, List.cons.injEq, true_and]
    simpa using ih hl

theorem getS_none {s : State} {q : Nat} (h : getS s q = none) : ∀ t ∈ s.ss, t.seq ≠ q := by
  unfold getS at h
  rw [List.find?_eq_none] at h
  intro t ht he
  exact h t ht (by simpa using he)

theorem getS_some {s : State} {q : Nat} {t : SStream} (h : getS s q = some t) : t ∈ s.ss ∧ t.seq = q := by
  unfold getS at h
  exact ⟨List.mem_of_find?_eq_some h, by simpa using List.find?_some h⟩

theorem getC_none {s : State} {q : Nat} (h : getC s q = none) : ∀ c ∈ s.cs, c.seq ≠ q := by
  unfold getC at h
  rw [List.find?_eq_none] at h
  intro t ht he
  exact h t ht (by simpa using he)

theorem getC_some {s : State} {q : Nat} {c : CStream} (h : getC s q = some c) : c ∈ s.cs ∧ c.seq = q := by
  unfold getC at h
  exact ⟨List.mem_of_find?_eq_some h, by simpa using List.find?_some h⟩

/-- how the client takes the next frame `f` for processing: inline (direct I/O) or from the decode queue -/
def CPop (s : State) (f : Frame) (dq s2c' : List Frame) : Prop :=
  (s.cfg.cDirect = true ∧ s.cShutdown = false ∧ s.s2c = f :: s2c' ∧ dq = s.cDecodeQ) ∨
  (s.cDecodeQ = f :: dq ∧ s2c' = s.s2c)

def SPop (s : State) (f : Frame) (dq c2s' : List Frame) : Prop :=
  (s.cfg.sDirect = true ∧ s.sEnded = false ∧ s.c2s = f :: c2s' ∧ dq = s.sDecodeQ) ∨
  (s.sDecodeQ = f :: dq ∧ c2s' = s.c2s)

/-- the reader's final sweep (the middle part of `cTeardown`) -/
def cSweepSt (s : State) : State :=
  { s with cShutdown := true, ucalls := s.ucalls.map (fun (u : Nat × Bool) => (u.1, true)), cs := s.cs.map sweepC }

/-- the last part of `sTeardown` -/
def sFinalSt (s : State) : State :=
  { s with sTornDown := true, ss := s.ss.map fun t => if t.inTable then { t with e := t.e.stop } else t }

/-- the transitions of T once the source facts are applied -/
inductive Tr (s : State) : State → Prop
  | cOpen : s.cShutdown = false →
      Tr s { s with nextSeq := s.nextSeq + 1, cs := s.cs ++ [{ seq := s.nextSeq }], c2s := pushC s ⟨s.nextSeq, .open⟩ }
  | cWriteErr (q : Nat) (c : CStream) : getC s q = some c → c.opened = true → c.e.closed = true →
      Tr s { s with cs := updC q (fun c => { c with e := { c.e with writeErrs := c.e.writeErrs + 1 } }) s.cs }
  | cWriteOk (q m : Nat) (c : CStream) : getC s q = some c → c.opened = true → c.e.closed = false → s.cShutdown = false →
      Tr s { s with c2s := pushC s ⟨q, .msg m⟩,
                    cs := updC q (fun c => { c with e := { c.e with written := c.e.written ++ [m] } }) s.cs }
  | cRead (q : Nat) (c : CStream) (e' : End) : getC s q = some c → c.opened = true → c.e.read = some e' →
      Tr s { s with cs := updC q (fun c => { c with e := e' }) s.cs }
  | cCloseShut (q : Nat) (c : CStream) : getC s q = some c → c.opened = true → s.cShutdown = true →
      Tr s { s with cs := updC q (fun c => { c with closeCalled := true, e := c.e.stop, closeDone := true }) s.cs }
  | cCloseSend (q : Nat) (c : CStream) : getC s q = some c → c.opened = true → s.cShutdown = false →
      Tr s { s with c2s := pushC s ⟨q, .close⟩,
                    cs := updC q (fun c => { c with closeCalled := true, e := c.e.stop, pend := .closeCall }) s.cs }
  | cCall : s.cShutdown = false →
      Tr s { s with nextSeq := s.nextSeq + 1, ucalls := s.ucalls ++ [(s.nextSeq, false)], c2s := pushC s ⟨s.nextSeq, .other⟩ }
  | cRecvQ (f : Frame) (rest : List Frame) : s.cShutdown = false → s.s2c = f :: rest → s.cfg.cDirect = false →
      Tr s { s with s2c := rest, cDecodeQ := s.cDecodeQ ++ [f] }
  | cpSkip (f : Frame) (dq s2c' : List Frame) : CPop s f dq s2c' →
      (s.cShutdown = true ∨ ∃ c, getC s f.seq = some c ∧ c.pend = .none) →
      Tr s { s with s2c := s2c', cDecodeQ := dq }
  | cpCloseDone (f : Frame) (dq s2c' : List Frame) (c : CStream) : CPop s f dq s2c' → s.cShutdown = false →
      getC s f.seq = some c → c.pend = .closeCall →
      Tr s { s with s2c := s2c', cDecodeQ := dq,
                    cs := updC f.seq (fun c => { c with pend := .none, inStreams := false, closeDone := true }) s.cs }
  | cpOpened (f : Frame) (dq s2c' : List Frame) (c : CStream) : CPop s f dq s2c' → s.cShutdown = false →
      getC s f.seq = some c → c.pend = .openCall → c.phase = .opening →
      Tr s { s with s2c := s2c', cDecodeQ := dq,
                    cs := updC f.seq (fun c => { c with phase := .streaming, opened := true }) s.cs }
  | cpMsgD (f : Frame) (dq s2c' : List Frame) (c : CStream) : CPop s f dq s2c' → s.cShutdown = false →
      getC s f.seq = some c → c.pend = .openCall → c.phase = .streaming → s.cfg.cDirect = true →
      Tr s { s with s2c := s2c', cDecodeQ := dq, cs := updC f.seq (trigC f.kind.value) s.cs }
  | cpMsgQ (f : Frame) (dq s2c' : List Frame) (c : CStream) : CPop s f dq s2c' → s.cShutdown = false →
      getC s f.seq = some c → c.pend = .openCall → c.phase = .streaming → s.cfg.cDirect = false →
      Tr s { s with s2c := s2c', cDecodeQ := dq, cStreamQ := s.cStreamQ ++ [(f.seq, f.kind.value)] }
  | cpUnary (f : Frame) (dq s2c' : List Frame) : CPop s f dq s2c' → s.cShutdown = false → getC s f.seq = none →
      Tr s { s with s2c := s2c', cDecodeQ := dq,
                    ucalls := s.ucalls.map fun u => if u.1 == f.seq then (u.1, true) else u }
  | cStreamRun (t : Nat × Nat) (rest : List (Nat × Nat)) : s.cStreamQ = t :: rest →
      Tr s { s with cStreamQ := rest, cs := updC t.1 (trigC t.2) s.cs }
  | cSweep : s.cShutdown = false → s.cut = true → s.s2c = [] → s.cDecodeQ = [] → Tr s (cSweepSt s)
  | sRecvQ (f : Frame) (rest : List Frame) : s.sEnded = false → s.c2s = f :: rest → s.cfg.sDirect = false →
      Tr s { s with c2s := rest, sDecodeQ := s.sDecodeQ ++ [f] }
  | spOpen (q : Nat) (dq c2s' : List Frame) : SPop s ⟨q, .open⟩ dq c2s' → getS s q = none →
      Tr s { s with c2s := c2s', sDecodeQ := dq, ss := s.ss ++ [{ seq := q, acked := true, started := true }],
                    s2c := pushS s ⟨q, .ack⟩ }
  | spClose (q : Nat) (dq c2s' : List Frame) : SPop s ⟨q, .close⟩ dq c2s' →
      Tr s { s with c2s := c2s', sDecodeQ := dq,
                    ss := updS q (fun t => if t.inTable then { t with inTable := false, e := t.e.stop } else t) s.ss,
                    s2c := pushS s ⟨q, .ack⟩ }
  | spSkip (f : Frame) (dq c2s' : List Frame) : SPop s f dq c2s' →
      (f.kind = .ack ∨ ∃ m, f.kind = .msg m ∧ (getS s f.seq = none ∨ ∃ t, getS s f.seq = some t ∧ t.inTable = false)) →
      Tr s { s with c2s := c2s', sDecodeQ := dq }
  | spMsgD (q m : Nat) (dq c2s' : List Frame) (t : SStream) : SPop s ⟨q, .msg m⟩ dq c2s' → getS s q = some t →
      t.inTable = true → s.cfg.sDirect = true →
      Tr s { s with c2s := c2s', sDecodeQ := dq, ss := updS q (fun t => { t with e := t.e.trigger m }) s.ss }
  | spMsgQ (q m : Nat) (dq c2s' : List Frame) (t : SStream) : SPop s ⟨q, .msg m⟩ dq c2s' → getS s q = some t →
      t.inTable = true → s.cfg.sDirect = false →
      Tr s { s with c2s := c2s', sDecodeQ := dq, sStreamQ := s.sStreamQ ++ [(q, m)] }
  | spOther (q : Nat) (dq c2s' : List Frame) : SPop s ⟨q, .other⟩ dq c2s' →
      Tr s { s with c2s := c2s', sDecodeQ := dq, s2c := pushS s ⟨q, .other⟩ }
  | sStreamRun (t : Nat × Nat) (rest : List (Nat × Nat)) : s.sStreamQ = t :: rest →
      Tr s { s with sStreamQ := rest, ss := updS t.1 (fun x => { x with e := x.e.trigger t.2 }) s.ss }
  | sEnd : s.sEnded = false → s.cut = true → s.c2s = [] → Tr s { s with sEnded := true }
  | sFinal : s.sEnded = true → s.cut = true → s.sDecodeQ = [] → s.sStreamQ = [] → Tr s (sFinalSt s)
  | sWriteErr (q : Nat) (t : SStream) : getS s q = some t →
      Tr s { s with ss := updS q (fun t => { t with e := { t.e with writeErrs := t.e.writeErrs + 1 } }) s.ss }
  | sWriteOk (q m : Nat) (t : SStream) : getS s q = some t → t.started = true → t.e.closed = false → s.sTornDown = false →
      Tr s { s with s2c := pushS s ⟨q, .msg m⟩,
                    ss := updS q (fun t => { t with e := { t.e with written := t.e.written ++ [m] } }) s.ss }
  | sRead (q : Nat) (t : SStream) (e' : End) : getS s q = some t → t.e.read = some e' →
      Tr s { s with ss := updS q (fun t => { t with e := e' }) s.ss }
  | sExit (q : Nat) (t : SStream) : getS s q = some t →
      Tr s { s with ss := updS q (fun t => { t with exited := true }) s.ss }
  | cutLink (kc ks : Nat) : s.cut = false → Tr s { s with cut := true, c2s := s.c2s.take kc, s2c := s.s2c.take ks }

/-! ### every step is a transition -/

theorem cProc_tr (hf : allFlags = true) (s : State) (f : Frame) (dq s2c' : List Frame) (hp : CPop s f dq s2c') :
    Tr s (cProcess { s with s2c := s2c', cDecodeQ := dq } f) := by
  obtain ⟨-, h2, -⟩ := allFlags_split hf
  unfold cProcess
  split
  · rename_i hsh; exact Tr.cpSkip f dq s2c' hp (Or.inl hsh)
  · rename_i hsh
    have hsh' : s.cShutdown = false := by simpa using hsh
    split
    · rename_i c hc
      have hc' : getC s f.seq = some c := hc
      split
      · rename_i hpe
        exact Tr.cpSkip f dq s2c' hp (Or.inr ⟨c, hc', hpe⟩)
      · rename_i hpe
        exact Tr.cpCloseDone f dq s2c' c hp hsh' hc' hpe
      · rename_i hpe
        split
        · rename_i hph
          try simp only [h2, ↓reduceIte]
          exact Tr.cpOpened f dq s2c' c hp hsh' hc' hpe hph
        · rename_i hph
          split
          · rename_i hd
            exact Tr.cpMsgD f dq s2c' c hp hsh' hc' hpe hph hd
          · rename_i hd
            exact Tr.cpMsgQ f dq s2c' c hp hsh' hc' hpe hph (by simpa using hd)
    · rename_i hc
      have hc' : getC s f.seq = none := hc
      exact Tr.cpUnary f dq s2c' hp hsh' hc'

theorem sProc_tr (hf : allFlags = true) (s : State) (f : Frame) (dq c2s' : List Frame) (hp : SPop s f dq c2s')
    (hopen : f.kind = .open → getS s f.seq = none) :
    Tr s (sProcess { s with c2s := c2s', sDecodeQ := dq } f) := by
  obtain ⟨h1, -, -, -, h5, -, -⟩ := allFlags_split hf
  obtain ⟨q, k⟩ := f
  unfold sProcess
  cases k with
  | «open» =>
    have hn : getS s q = none := hopen rfl
    have hn' : getS { s with c2s := c2s', sDecodeQ := dq } q = none := hn
    simp only [hn', Option.isNone_none, ↓reduceIte, h1]
    rw [sendS_eq, setS_eq]
    have : updS q (fun t => { t with acked := true, started := true }) (s.ss ++ [{ seq := q }]) =
        s.ss ++ [{ seq := q, acked := true, started := true }] := by
      unfold updS
      rw [List.map_append]
      have := updS_none (g := fun t => { t with acked := true, started := true }) (getS_none hn)
      unfold updS at this
      rw [this]
      simp
    simp only [this]
    exact Tr.spOpen q dq c2s' hp hn
  | close =>
    simp only [h5, ↓reduceIte]
    rw [sendS_eq, setS_eq]
    exact Tr.spClose q dq c2s' hp
  | msg m =>
    simp only []
    split
    · rename_i t ht
      have ht' : getS s q = some t := ht
      split
      · rename_i hin
        exact Tr.spSkip ⟨q, .msg m⟩ dq c2s' hp (Or.inr ⟨m, rfl, Or.inr ⟨t, ht', by simpa using hin⟩⟩)
      · rename_i hin
        split
        · rename_i hd
          rw [setS_eq]
          exact Tr.spMsgD q m dq c2s' t hp ht' (by simpa using hin) hd
        · rename_i hd
          exact Tr.spMsgQ q m dq c2s' t hp ht' (by simpa using hin) (by simpa using hd)
    · rename_i ht
      have ht' : getS s q = none := ht
      exact Tr.spSkip ⟨q, .msg m⟩ dq c2s' hp (Or.inr ⟨m, rfl, Or.inl ht'⟩)
  | other =>
    simp only []
    rw [sendS_eq]
    exact Tr.spOther q dq c2s' hp
  | ack =>
    exact Tr.spSkip ⟨q, .ack⟩ dq c2s' hp (Or.inl rfl)

theorem updC_updC (q : Nat) (g1 g2 : CStream → CStream) (h : ∀ c, (g1 c).seq = c.seq) (cs : List CStream) :
    updC q g2 (updC q g1 cs) = updC q (fun c => g2 (g1 c)) cs := by
  unfold updC
  rw [List.map_map]
  apply List.map_congr_left
  intro c _
  simp only [Function.comp]
  split
  · rename_i hq
    simp only [h c, hq, ↓reduceIte]
  · rfl

theorem step_shape (hf : allFlags = true) {s s' : State} {e : Ev}
    (hopen : ∀ f ∈ s.sDecodeQ ++ s.c2s, f.kind = .open → getS s f.seq = none)
    (hack : ∀ t ∈ s.ss, t.acked = true)
    (he : e ≠ .cEof) (he' : e ≠ .sEof) (hs : step s e = some s') : Tr s s' := by
  obtain ⟨h1, h2, h3, h4, h5, h6, h7⟩ := allFlags_split hf
  cases e with
  | cOpen =>
    simp only [step] at hs
    split at hs
    · cases hs
    · rename_i hsh
      cases hs
      rw [sendC_eq]
      exact Tr.cOpen (by simpa using hsh)
  | cOpenedLate q =>
    simp only [step, h2, ↓reduceIte] at hs
    cases hs
  | cWrite q m =>
    simp only [step] at hs
    split at hs
    · rename_i c hc
      split at hs
      · cases hs
      · rename_i h1
        simp only [Bool.or_eq_true, Bool.not_eq_true', beq_iff_eq, not_or, Bool.not_eq_false] at h1
        split at hs
        · rename_i hcl
          cases hs
          exact Tr.cWriteErr q c hc h1.1 hcl
        · rename_i hcl
          split at hs
          · cases hs
          · rename_i hsh
            cases hs
            rw [sendC_eq, setC_eq]
            exact Tr.cWriteOk q m c hc h1.1 (by simpa using hcl) (by simpa using hsh)
    · cases hs
  | cRead q =>
    simp only [step] at hs
    split at hs
    · rename_i c hc
      split at hs
      · cases hs
      · rename_i ho
        cases hr : c.e.read with
        | none => rw [hr] at hs; cases hs
        | some e' =>
          rw [hr] at hs
          cases hs
          exact Tr.cRead q c e' hc (by simpa using ho) hr
    · cases hs
  | cClose q =>
    simp only [step] at hs
    split at hs
    · rename_i c hc
      split at hs
      · cases hs
      · rename_i ho
        simp only [Bool.or_eq_true, Bool.not_eq_true', not_or, Bool.not_eq_false, Bool.not_eq_true] at ho
        try simp only [h6, ↓reduceIte] at hs
        split at hs
        · rename_i hsh
          cases hs
          rw [setC_eq, setC_eq]
          simp only []
          rw [updC_updC q (fun c => { c with closeCalled := true, e := c.e.stop }) (fun c => { c with closeDone := true })
            (fun _ => rfl)]
          exact Tr.cCloseShut q c hc ho.1 hsh
        · rename_i hsh
          cases hs
          rw [sendC_eq, setC_eq, setC_eq]
          simp only []
          rw [updC_updC q (fun c => { c with closeCalled := true, e := c.e.stop }) (fun c => { c with pend := .closeCall })
            (fun _ => rfl)]
          exact Tr.cCloseSend q c hc ho.1 (by simpa [setC] using hsh)
    · cases hs
  | cCall =>
    simp only [step] at hs
    split at hs
    · cases hs
    · rename_i hsh
      cases hs
      rw [sendC_eq]
      exact Tr.cCall (by simpa using hsh)
  | cRecv =>
    simp only [step] at hs
    split at hs
    · cases hs
    · rename_i hsh
      have hsh' : s.cShutdown = false := by simpa using hsh
      split at hs
      · rename_i f rest hl
        split at hs
        · rename_i hd
          cases hs
          exact cProc_tr hf s f s.cDecodeQ rest (Or.inl ⟨hd, hsh', hl, rfl⟩)
        · rename_i hd
          cases hs
          exact Tr.cRecvQ f rest hsh' hl (by simpa using hd)
      · cases hs
  | cDecode =>
    simp only [step] at hs
    split at hs
    · rename_i f rest hl
      cases hs
      exact cProc_tr hf s f rest s.s2c (Or.inr ⟨hl, rfl⟩)
    · cases hs
  | cStreamRun =>
    simp only [step] at hs
    split at hs
    · rename_i t rest hl
      cases hs
      rw [cTrigger_eq]
      exact Tr.cStreamRun t rest hl
    · cases hs
  | cEof => exact absurd rfl he
  | sRecv =>
    simp only [step] at hs
    split at hs
    · cases hs
    · rename_i hsh
      have hsh' : s.sEnded = false := by simpa using hsh
      split at hs
      · rename_i f rest hl
        split at hs
        · rename_i hd
          cases hs
          exact sProc_tr hf s f s.sDecodeQ rest (Or.inl ⟨hd, hsh', hl, rfl⟩)
            (hopen f (by rw [hl]; simp))
        · rename_i hd
          cases hs
          exact Tr.sRecvQ f rest hsh' hl (by simpa using hd)
      · cases hs
  | sDecode =>
    simp only [step] at hs
    split at hs
    · rename_i f rest hl
      cases hs
      exact sProc_tr hf s f rest s.c2s (Or.inr ⟨hl, rfl⟩) (hopen f (by rw [hl]; simp))
    · cases hs
  | sStreamRun =>
    simp only [step] at hs
    split at hs
    · rename_i t rest hl
      cases hs
      rw [setS_eq]
      exact Tr.sStreamRun t rest hl
    · cases hs
  | sAck q =>
    simp only [step] at hs
    split at hs
    · rename_i t ht
      rw [hack t (getS_some ht).1] at hs
      simp at hs
    · cases hs
  | sEof => exact absurd rfl he'
  | sWrite q m =>
    simp only [step] at hs
    split at hs
    · rename_i t ht
      split at hs
      · cases hs
      · rename_i h1
        simp only [Bool.or_eq_true, Bool.not_eq_true', beq_iff_eq, not_or, Bool.not_eq_false, Bool.not_eq_true] at h1
        split at hs
        · cases hs
          rw [setS_eq]
          exact Tr.sWriteErr q t ht
        · rename_i hcl
          simp only [Bool.or_eq_true, not_or, Bool.not_eq_true] at hcl
          cases hs
          rw [sendS_eq, setS_eq]
          exact Tr.sWriteOk q m t ht h1.1.1 hcl.1 hcl.2
    · cases hs
  | sRead q =>
    simp only [step] at hs
    split at hs
    · rename_i t ht
      split at hs
      · cases hs
      · cases hr : t.e.read with
        | none => rw [hr] at hs; cases hs
        | some e' =>
          rw [hr] at hs
          cases hs
          exact Tr.sRead q t e' ht hr
    · cases hs
  | sExit q =>
    simp only [step] at hs
    split at hs
    · rename_i t ht
      split at hs
      · cases hs
      · cases hs
        rw [setS_eq]
        exact Tr.sExit q t ht
    · cases hs
  | cutLink kc ks =>
    simp only [step] at hs
    split at hs
    · cases hs
    · rename_i hc
      cases hs
      exact Tr.cutLink kc ks (by simpa using hc)

/-! ### `cProcess` / `sProcess` do not touch the queues they are fed from -/

theorem cProcess_dq (s : State) (x : List Frame) (f : Frame) :
    cProcess { s with cDecodeQ := x } f = { cProcess s f with cDecodeQ := x } := by
  unfold cProcess cTrigger setC getC
  simp only []
  split
  · rfl
  split
  · split
    · rfl
    · rfl
    · split
      · split <;> rfl
      · split <;> rfl
  · rfl

theorem sProcess_dq (s : State) (x : List Frame) (f : Frame) :
    sProcess { s with sDecodeQ := x } f = { sProcess s f with sDecodeQ := x } := by
  unfold sProcess setS sendS getS
  simp only []
  split
  · split <;> split <;> (try split) <;> rfl
  · split <;> rfl
  · split
    · split
      · rfl
      · split <;> rfl
    · rfl
  · split <;> rfl
  · rfl

theorem cProcess_frame (s : State) (f : Frame) :
    (cProcess s f).cDecodeQ = s.cDecodeQ ∧ (cProcess s f).s2c = s.s2c ∧ (cProcess s f).cut = s.cut ∧
    (cProcess s f).cShutdown = s.cShutdown := by
  unfold cProcess cTrigger setC
  split
  · exact ⟨rfl, rfl, rfl, rfl⟩
  split
  · split
    · exact ⟨rfl, rfl, rfl, rfl⟩
    · exact ⟨rfl, rfl, rfl, rfl⟩
    · split
      · split <;> exact ⟨rfl, rfl, rfl, rfl⟩
      · split <;> exact ⟨rfl, rfl, rfl, rfl⟩
  · exact ⟨rfl, rfl, rfl, rfl⟩

theorem sendS_frame (s : State) (f : Frame) :
    (sendS s f).sDecodeQ = s.sDecodeQ ∧ (sendS s f).c2s = s.c2s ∧ (sendS s f).cut = s.cut ∧
    (sendS s f).sEnded = s.sEnded := by
  unfold sendS; split <;> exact ⟨rfl, rfl, rfl, rfl⟩

theorem sProcess_frame (s : State) (f : Frame) :
    (sProcess s f).sDecodeQ = s.sDecodeQ ∧ (sProcess s f).c2s = s.c2s ∧ (sProcess s f).cut = s.cut ∧
    (sProcess s f).sEnded = s.sEnded := by
  unfold sProcess
  split
  · simp only []
    split
    · split
      · exact sendS_frame _ _
      · exact sendS_frame _ _
    · split <;> exact ⟨rfl, rfl, rfl, rfl⟩
  · exact sendS_frame _ _
  · split
    · split
      · exact ⟨rfl, rfl, rfl, rfl⟩
      · split <;> exact ⟨rfl, rfl, rfl, rfl⟩
    · exact ⟨rfl, rfl, rfl, rfl⟩
  · exact sendS_frame _ _
  · exact ⟨rfl, rfl, rfl, rfl⟩

/-! ### the two teardowns as sequences of transitions -/

theorem cFold_frame : ∀ (l : List Frame) (s : State),
    (l.foldl cProcess s).cDecodeQ = s.cDecodeQ ∧ (l.foldl cProcess s).s2c = s.s2c ∧ (l.foldl cProcess s).cut = s.cut ∧
    (l.foldl cProcess s).cShutdown = s.cShutdown
  | [], _ => ⟨rfl, rfl, rfl, rfl⟩
  | f :: rest, s => by
    rw [List.foldl_cons]
    obtain ⟨h1, h2, h3, h4⟩ := cFold_frame rest (cProcess s f)
    obtain ⟨g1, g2, g3, g4⟩ := cProcess_frame s f
    exact ⟨h1.trans g1, h2.trans g2, h3.trans g3, h4.trans g4⟩

theorem sFold_frame : ∀ (l : List Frame) (s : State),
    (l.foldl sProcess s).sDecodeQ = s.sDecodeQ ∧ (l.foldl sProcess s).c2s = s.c2s ∧ (l.foldl sProcess s).cut = s.cut ∧
    (l.foldl sProcess s).sEnded = s.sEnded
  | [], _ => ⟨rfl, rfl, rfl, rfl⟩
  | f :: rest, s => by
    rw [List.foldl_cons]
    obtain ⟨h1, h2, h3, h4⟩ := sFold_frame rest (sProcess s f)
    obtain ⟨g1, g2, g3, g4⟩ := sProcess_frame s f
    exact ⟨h1.trans g1, h2.trans g2, h3.trans g3, h4.trans g4⟩

theorem State.dq_nil (s : State) (h : s.cDecodeQ = []) : { s with cDecodeQ := [] } = s := by
  cases s; simp only at h; subst h; rfl
theorem State.sdq_nil (s : State) (h : s.sDecodeQ = []) : { s with sDecodeQ := [] } = s := by
  cases s; simp only at h; subst h; rfl
theorem State.cq_nil (s : State) (h : s.cStreamQ = []) : { s with cStreamQ := [] } = s := by
  cases s; simp only at h; subst h; rfl
theorem State.sq_nil (s : State) (h : s.sStreamQ = []) : { s with sStreamQ := [] } = s := by
  cases s; simp only at h; subst h; rfl

theorem cFold_ind (P : State → Prop) (hD : ∀ s s', P s → step s .cDecode = some s' → P s') :
    ∀ (l : List Frame) (s : State), s.cDecodeQ = l → P s → P (l.foldl cProcess { s with cDecodeQ := [] })
  | [], s, h, hP => by rw [State.dq_nil s h]; exact hP
  | f :: rest, s, h, hP => by
    rw [List.foldl_cons]
    have h1 : step s .cDecode = some (cProcess { s with cDecodeQ := rest } f) := by simp only [step, h]
    have h2 := hD _ _ hP h1
    have h3 := cFold_ind P hD rest _ (by rw [cProcess_dq]) h2
    rw [cProcess_dq] at h3
    rw [cProcess_dq]
    exact h3

theorem sFold_ind (P : State → Prop) (hD : ∀ s s', P s → step s .sDecode = some s' → P s') :
    ∀ (l : List Frame) (s : State), s.sDecodeQ = l → P s → P (l.foldl sProcess { s with sDecodeQ := [] })
  | [], s, h, hP => by rw [State.sdq_nil s h]; exact hP
  | f :: rest, s, h, hP => by
    rw [List.foldl_cons]
    have h1 : step s .sDecode = some (sProcess { s with sDecodeQ := rest } f) := by simp only [step, h]
    have h2 := hD _ _ hP h1
    have h3 := sFold_ind P hD rest _ (by rw [sProcess_dq]) h2
    rw [sProcess_dq] at h3
    rw [sProcess_dq]
    exact h3

theorem cRunFold_ind (P : State → Prop) (hR : ∀ s s', P s → step s .cStreamRun = some s' → P s') :
    ∀ (l : List (Nat × Nat)) (s : State), s.cStreamQ = l → P s →
      P (l.foldl (fun (s : State) (t : Nat × Nat) => cTrigger s t.1 t.2) { s with cStreamQ := [] })
  | [], s, h, hP => by rw [State.cq_nil s h]; exact hP
  | t :: rest, s, h, hP => by
    rw [List.foldl_cons]
    have h1 : step s .cStreamRun = some (cTrigger { s with cStreamQ := rest } t.1 t.2) := by simp only [step, h]
    have h2 := hR _ _ hP h1
    exact cRunFold_ind P hR rest _ rfl h2

theorem sRunFold_ind (P : State → Prop) (hR : ∀ s s', P s → step s .sStreamRun = some s' → P s') :
    ∀ (l : List (Nat × Nat)) (s : State), s.sStreamQ = l → P s →
      P (l.foldl (fun (s : State) (t : Nat × Nat) => setS s t.1 fun x => { x with e := x.e.trigger t.2 }) { s with sStreamQ := [] })
  | [], s, h, hP => by rw [State.sq_nil s h]; exact hP
  | t :: rest, s, h, hP => by
    rw [List.foldl_cons]
    have h1 : step s .sStreamRun = some (setS { s with sStreamQ := rest } t.1 fun x => { x with e := x.e.trigger t.2 }) := by
      simp only [step, h]
    have h2 := hR _ _ hP h1
    exact sRunFold_ind P hR rest _ rfl h2

theorem cRunFold_q : ∀ (l : List (Nat × Nat)) (s : State),
    (l.foldl (fun (s : State) (t : Nat × Nat) => cTrigger s t.1 t.2) s).cStreamQ = s.cStreamQ
  | [], _ => rfl
  | t :: rest, s => by rw [List.foldl_cons]; exact cRunFold_q rest _

theorem sRunFold_frame : ∀ (l : List (Nat × Nat)) (s : State),
    let s' := l.foldl (fun (s : State) (t : Nat × Nat) => setS s t.1 fun x => { x with e := x.e.trigger t.2 }) s
    s'.sStreamQ = s.sStreamQ ∧ s'.sDecodeQ = s.sDecodeQ ∧ s'.cut = s.cut ∧ s'.sEnded = s.sEnded
  | [], _ => ⟨rfl, rfl, rfl, rfl⟩
  | t :: rest, s => by
    intro s'
    have := sRunFold_frame rest (setS s t.1 fun x => { x with e := x.e.trigger t.2 })
    exact this

theorem cEof_ind (P : State → Prop)
    (hD : ∀ s s', P s → step s .cDecode = some s' → P s')
    (hR : ∀ s s', P s → step s .cStreamRun = some s' → P s')
    (hS : ∀ s, P s → s.cShutdown = false → s.cut = true → s.s2c = [] → s.cDecodeQ = [] → P (cSweepSt s))
    {s s' : State} (hP : P s) (hs : step s .cEof = some s') : P s' := by
  simp only [step] at hs
  split at hs
  · cases hs
  rename_i hg
  simp only [Bool.or_eq_true, Bool.not_eq_true', List.isEmpty_iff, not_or, Bool.not_eq_true, Bool.not_eq_false] at hg
  obtain ⟨⟨hsh, hcut⟩, hs2c⟩ := hg
  cases hs
  have p1 := cFold_ind P hD s.cDecodeQ s rfl hP
  obtain ⟨f1, f2, f3, f4⟩ := cFold_frame s.cDecodeQ { s with cDecodeQ := [] }
  have p2 := hS _ p1 (f4.trans hsh) (f3.trans hcut) (f2.trans hs2c) f1
  exact cRunFold_ind P hR _ _ rfl p2

theorem sEof_ind (hf : allFlags = true) (P : State → Prop)
    (hD : ∀ s s', P s → step s .sDecode = some s' → P s')
    (hR : ∀ s s', P s → step s .sStreamRun = some s' → P s')
    (hE : ∀ s, P s → s.sEnded = false → s.cut = true → s.c2s = [] → P { s with sEnded := true })
    (hS : ∀ s, P s → s.sEnded = true → s.cut = true → s.sDecodeQ = [] → s.sStreamQ = [] → P (sFinalSt s))
    {s s' : State} (hP : P s) (hs : step s .sEof = some s') : P s' := by
  obtain ⟨-, -, -, h4, -⟩ := allFlags_split hf
  simp only [step] at hs
  split at hs
  · cases hs
  rename_i hg
  simp only [Bool.or_eq_true, Bool.not_eq_true', List.isEmpty_iff, not_or, Bool.not_eq_true, Bool.not_eq_false] at hg
  obtain ⟨⟨hsh, hcut⟩, hc2s⟩ := hg
  cases hs
  have p0 := hE s hP hsh hcut hc2s
  have p1 := sFold_ind P hD s.sDecodeQ { s with sEnded := true } rfl p0
  obtain ⟨f1, -, f3, f4⟩ := sFold_frame s.sDecodeQ { s with sEnded := true, sDecodeQ := [] }
  generalize hs1 : List.foldl sProcess { s with sEnded := true, sDecodeQ := [] } s.sDecodeQ = s1 at p1 f1 f3 f4
  have p2 := sRunFold_ind P hR s1.sStreamQ s1 rfl p1
  obtain ⟨g1, g2, g3, g4⟩ := sRunFold_frame s1.sStreamQ { s1 with sStreamQ := [] }
  have p3 := hS _ p2 (g4.trans f4) (g3.trans (f3.trans hcut)) (g2.trans f1) g1
  unfold sTeardown
  simp only [hs1]
  unfold sFinalSt at p3
  simp only [h4, Bool.and_true]
  exact p3

end RpcVerif.T

