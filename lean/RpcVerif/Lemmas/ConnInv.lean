import RpcVerif.Model.ConnInv
/-
  Proof that `Inv` (K1 pending table, K2 ownership, K3 shutdown, ids) is an inductive invariant
  of the connection automaton K.
-/
namespace RpcVerif.K
open RpcVerif

/-! ### projections of the helper operations -/

@[simp] theorem getCall_eq (s : State) (k : Nat) : getCall s k = s.calls k := rfl

@[simp] theorem updCall_calls (s : State) (k : Nat) (f : Call → Call) (j : Nat) :
    (updCall s k f).calls j = if j = k then (s.calls k).map f else s.calls j := rfl
@[simp] theorem updCall_pending (s : State) (k : Nat) (f : Call → Call) : (updCall s k f).pending = s.pending := rfl
@[simp] theorem updCall_finQ (s : State) (k : Nat) (f : Call → Call) : (updCall s k f).finQ = s.finQ := rfl
@[simp] theorem updCall_finBag (s : State) (k : Nat) (f : Call → Call) : (updCall s k f).finBag = s.finBag := rfl
@[simp] theorem updCall_reader (s : State) (k : Nat) (f : Call → Call) : (updCall s k f).reader = s.reader := rfl
@[simp] theorem updCall_seq (s : State) (k : Nat) (f : Call → Call) : (updCall s k f).seq = s.seq := rfl
@[simp] theorem updCall_shutdown (s : State) (k : Nat) (f : Call → Call) : (updCall s k f).shutdown = s.shutdown := rfl
@[simp] theorem updCall_ids (s : State) (k : Nat) (f : Call → Call) : (updCall s k f).ids = s.ids := rfl
@[simp] theorem updCall_cfg (s : State) (k : Nat) (f : Call → Call) : (updCall s k f).cfg = s.cfg := rfl

@[simp] theorem setErr_calls (s : State) (k : Nat) (e : Err) (j : Nat) :
    (setErr s k e).calls j =
      if j = k then (s.calls k).map (fun c => { c with errHist := c.errHist ++ [e] }) else s.calls j := rfl
@[simp] theorem setErr_pending (s : State) (k : Nat) (e : Err) : (setErr s k e).pending = s.pending := rfl
@[simp] theorem setErr_finQ (s : State) (k : Nat) (e : Err) : (setErr s k e).finQ = s.finQ := rfl
@[simp] theorem setErr_finBag (s : State) (k : Nat) (e : Err) : (setErr s k e).finBag = s.finBag := rfl
@[simp] theorem setErr_reader (s : State) (k : Nat) (e : Err) : (setErr s k e).reader = s.reader := rfl
@[simp] theorem setErr_seq (s : State) (k : Nat) (e : Err) : (setErr s k e).seq = s.seq := rfl
@[simp] theorem setErr_shutdown (s : State) (k : Nat) (e : Err) : (setErr s k e).shutdown = s.shutdown := rfl
@[simp] theorem setErr_ids (s : State) (k : Nat) (e : Err) : (setErr s k e).ids = s.ids := rfl
@[simp] theorem setErr_cfg (s : State) (k : Nat) (e : Err) : (setErr s k e).cfg = s.cfg := rfl

theorem signal_cases (s : State) (k : Nat) :
    signal s k = updCall s k (fun c => { c with signals := c.signals + 1 }) ∨
    signal s k = { updCall s k (fun c => { c with signals := c.signals + 1 }) with
                    arrivals := s.arrivals ++ [k] } := by
  unfold signal
  simp only []
  split
  · split
    · right; rfl
    · left; rfl
  · left; rfl

@[simp] theorem signal_calls (s : State) (k : Nat) (j : Nat) :
    (signal s k).calls j =
      if j = k then (s.calls k).map (fun c => { c with signals := c.signals + 1 }) else s.calls j := by
  rcases signal_cases s k with h | h <;> rw [h] <;> rfl
@[simp] theorem signal_pending (s : State) (k : Nat) : (signal s k).pending = s.pending := by
  rcases signal_cases s k with h | h <;> rw [h] <;> rfl
@[simp] theorem signal_finQ (s : State) (k : Nat) : (signal s k).finQ = s.finQ := by
  rcases signal_cases s k with h | h <;> rw [h] <;> rfl
@[simp] theorem signal_finBag (s : State) (k : Nat) : (signal s k).finBag = s.finBag := by
  rcases signal_cases s k with h | h <;> rw [h] <;> rfl
@[simp] theorem signal_reader (s : State) (k : Nat) : (signal s k).reader = s.reader := by
  rcases signal_cases s k with h | h <;> rw [h] <;> rfl
@[simp] theorem signal_seq (s : State) (k : Nat) : (signal s k).seq = s.seq := by
  rcases signal_cases s k with h | h <;> rw [h] <;> rfl
@[simp] theorem signal_shutdown (s : State) (k : Nat) : (signal s k).shutdown = s.shutdown := by
  rcases signal_cases s k with h | h <;> rw [h] <;> rfl
@[simp] theorem signal_ids (s : State) (k : Nat) : (signal s k).ids = s.ids := by
  rcases signal_cases s k with h | h <;> rw [h] <;> rfl
@[simp] theorem signal_cfg (s : State) (k : Nat) : (signal s k).cfg = s.cfg := by
  rcases signal_cases s k with h | h <;> rw [h] <;> rfl

theorem hand_cases (s : State) (k : Nat) :
    hand s k = s ∨ hand s k = { s with handed := s.handed ++ [k] } := by
  unfold hand
  split
  · split
    · right; rfl
    · left; rfl
  · left; rfl

@[simp] theorem hand_calls (s : State) (k : Nat) : (hand s k).calls = s.calls := by
  rcases hand_cases s k with h | h <;> rw [h]
@[simp] theorem hand_pending (s : State) (k : Nat) : (hand s k).pending = s.pending := by
  rcases hand_cases s k with h | h <;> rw [h]
@[simp] theorem hand_finQ (s : State) (k : Nat) : (hand s k).finQ = s.finQ := by
  rcases hand_cases s k with h | h <;> rw [h]
@[simp] theorem hand_finBag (s : State) (k : Nat) : (hand s k).finBag = s.finBag := by
  rcases hand_cases s k with h | h <;> rw [h]
@[simp] theorem hand_reader (s : State) (k : Nat) : (hand s k).reader = s.reader := by
  rcases hand_cases s k with h | h <;> rw [h]
@[simp] theorem hand_seq (s : State) (k : Nat) : (hand s k).seq = s.seq := by
  rcases hand_cases s k with h | h <;> rw [h]
@[simp] theorem hand_shutdown (s : State) (k : Nat) : (hand s k).shutdown = s.shutdown := by
  rcases hand_cases s k with h | h <;> rw [h]
@[simp] theorem hand_ids (s : State) (k : Nat) : (hand s k).ids = s.ids := by
  rcases hand_cases s k with h | h <;> rw [h]
@[simp] theorem hand_cfg (s : State) (k : Nat) : (hand s k).cfg = s.cfg := by
  rcases hand_cases s k with h | h <;> rw [h]

theorem complete_cases (s : State) (k : Nat) :
    (s.cfg.pipe = true ∧ complete s k = { hand s k with finQ := (hand s k).finQ ++ [.done k] }) ∨
    (s.cfg.pipe = false ∧ complete s k = signal (hand s k) k) := by
  unfold complete
  simp only [hand_cfg]
  cases h : s.cfg.pipe
  · right; simp
  · left; simp

@[simp] theorem complete_calls (s : State) (k : Nat) (j : Nat) :
    (complete s k).calls j =
      if s.cfg.pipe = true then s.calls j
      else if j = k then (s.calls k).map (fun c => { c with signals := c.signals + 1 }) else s.calls j := by
  rcases complete_cases s k with ⟨hp, h⟩ | ⟨hp, h⟩ <;> rw [h] <;> simp [hp]
@[simp] theorem complete_pending (s : State) (k : Nat) : (complete s k).pending = s.pending := by
  rcases complete_cases s k with ⟨hp, h⟩ | ⟨hp, h⟩ <;> rw [h] <;> simp
@[simp] theorem complete_finQ (s : State) (k : Nat) :
    (complete s k).finQ = if s.cfg.pipe = true then s.finQ ++ [.done k] else s.finQ := by
  rcases complete_cases s k with ⟨hp, h⟩ | ⟨hp, h⟩ <;> rw [h] <;> simp [hp]
@[simp] theorem complete_finBag (s : State) (k : Nat) : (complete s k).finBag = s.finBag := by
  rcases complete_cases s k with ⟨hp, h⟩ | ⟨hp, h⟩ <;> rw [h] <;> simp
@[simp] theorem complete_reader (s : State) (k : Nat) : (complete s k).reader = s.reader := by
  rcases complete_cases s k with ⟨hp, h⟩ | ⟨hp, h⟩ <;> rw [h] <;> simp
@[simp] theorem complete_seq (s : State) (k : Nat) : (complete s k).seq = s.seq := by
  rcases complete_cases s k with ⟨hp, h⟩ | ⟨hp, h⟩ <;> rw [h] <;> simp
@[simp] theorem complete_shutdown (s : State) (k : Nat) : (complete s k).shutdown = s.shutdown := by
  rcases complete_cases s k with ⟨hp, h⟩ | ⟨hp, h⟩ <;> rw [h] <;> simp
@[simp] theorem complete_ids (s : State) (k : Nat) : (complete s k).ids = s.ids := by
  rcases complete_cases s k with ⟨hp, h⟩ | ⟨hp, h⟩ <;> rw [h] <;> simp
@[simp] theorem complete_cfg (s : State) (k : Nat) : (complete s k).cfg = s.cfg := by
  rcases complete_cases s k with ⟨hp, h⟩ | ⟨hp, h⟩ <;> rw [h] <;> simp

theorem popSend_cases (s : State) (k : Nat) :
    popSend s k = s ∨ popSend s k = { s with sendQ := s.sendQ.filter (· != k) } := by
  unfold popSend
  split
  · right; rfl
  · left; rfl

@[simp] theorem popSend_calls (s : State) (k : Nat) : (popSend s k).calls = s.calls := by
  rcases popSend_cases s k with h | h <;> rw [h]
@[simp] theorem popSend_pending (s : State) (k : Nat) : (popSend s k).pending = s.pending := by
  rcases popSend_cases s k with h | h <;> rw [h]
@[simp] theorem popSend_finQ (s : State) (k : Nat) : (popSend s k).finQ = s.finQ := by
  rcases popSend_cases s k with h | h <;> rw [h]
@[simp] theorem popSend_finBag (s : State) (k : Nat) : (popSend s k).finBag = s.finBag := by
  rcases popSend_cases s k with h | h <;> rw [h]
@[simp] theorem popSend_reader (s : State) (k : Nat) : (popSend s k).reader = s.reader := by
  rcases popSend_cases s k with h | h <;> rw [h]
@[simp] theorem popSend_seq (s : State) (k : Nat) : (popSend s k).seq = s.seq := by
  rcases popSend_cases s k with h | h <;> rw [h]
@[simp] theorem popSend_shutdown (s : State) (k : Nat) : (popSend s k).shutdown = s.shutdown := by
  rcases popSend_cases s k with h | h <;> rw [h]
@[simp] theorem popSend_ids (s : State) (k : Nat) : (popSend s k).ids = s.ids := by
  rcases popSend_cases s k with h | h <;> rw [h]
@[simp] theorem popSend_cfg (s : State) (k : Nat) : (popSend s k).cfg = s.cfg := by
  rcases popSend_cases s k with h | h <;> rw [h]

/-! ### list facts: lookup, erase, sort -/

def cnt (p : List (Nat × Nat)) (j : Nat) : Nat := (p.filter (·.2 == j)).length

@[simp] theorem cnt_nil (j : Nat) : cnt [] j = 0 := rfl
theorem cnt_cons (x : Nat × Nat) (p : List (Nat × Nat)) (j : Nat) :
    cnt (x :: p) j = (if x.2 = j then 1 else 0) + cnt p j := by
  unfold cnt
  by_cases h : x.2 = j <;> simp [h] <;> omega
theorem cnt_append (p r : List (Nat × Nat)) (j : Nat) : cnt (p ++ r) j = cnt p j + cnt r j := by
  unfold cnt; simp

theorem pendingTok_eq (s : State) (j : Nat) : pendingTok s j = cnt s.pending j := rfl

theorem cnt_pos_of_mem {p : List (Nat × Nat)} {q k : Nat} (h : (q, k) ∈ p) : 0 < cnt p k := by
  unfold cnt
  apply List.length_pos_of_mem (a := (q, k))
  simp [h]

theorem mem_of_cnt_pos {p : List (Nat × Nat)} {k : Nat} (h : 0 < cnt p k) : ∃ q, (q, k) ∈ p := by
  unfold cnt at h
  obtain ⟨x, hx⟩ := List.exists_mem_of_length_pos h
  simp at hx
  exact ⟨x.1, by rw [← hx.2]; exact hx.1⟩

theorem lookup_mem {p : List (Nat × Nat)} {q k : Nat} (h : lookup p q = some k) : (q, k) ∈ p := by
  unfold lookup at h
  cases hf : p.find? (·.1 == q) with
  | none => simp [hf] at h
  | some x =>
    simp [hf] at h
    have h1 := List.find?_some hf
    have h2 := List.mem_of_find?_eq_some hf
    simp at h1
    rw [← h1, ← h]; exact h2

theorem erase_of_not_mem {p : List (Nat × Nat)} {q : Nat} (h : q ∉ p.map (·.1)) : erase p q = p := by
  unfold erase
  rw [List.filter_eq_self]
  intro a ha
  simp
  intro hq
  exact h (by rw [← hq]; exact List.mem_map_of_mem ha)

theorem erase_mem {p : List (Nat × Nat)} {q : Nat} {x : Nat × Nat} (h : x ∈ erase p q) : x ∈ p := by
  unfold erase at h
  exact (List.mem_filter.mp h).1

theorem erase_nodup {p : List (Nat × Nat)} (q : Nat) (h : (p.map (·.1)).Nodup) :
    ((erase p q).map (·.1)).Nodup := by
  unfold erase
  exact List.Nodup.sublist (List.Sublist.map _ List.filter_sublist) h

theorem erase_cnt {p : List (Nat × Nat)} {q k : Nat} (hn : (p.map (·.1)).Nodup) (hm : (q, k) ∈ p) (j : Nat) :
    cnt (erase p q) j + (if k = j then 1 else 0) = cnt p j := by
  induction p with
  | nil => simp at hm
  | cons x xs ih =>
    simp only [List.map_cons, List.nodup_cons] at hn
    by_cases hx : x.1 = q
    · have hnot : q ∉ xs.map (·.1) := by rw [← hx]; exact hn.1
      have hxe : x = (q, k) := by
        rcases List.mem_cons.mp hm with h | h
        · exact h.symm
        · exact absurd (List.mem_map_of_mem (f := (·.1)) h) hnot
      have : erase (x :: xs) q = xs := by
        have h1 : erase (x :: xs) q = erase xs q := by
          unfold erase; simp [hx]
        rw [h1, erase_of_not_mem hnot]
      rw [this, cnt_cons, hxe]
      simp; omega
    · have hm' : (q, k) ∈ xs := by
        rcases List.mem_cons.mp hm with h | h
        · exact absurd (by rw [← h]) hx
        · exact h
      have h1 : erase (x :: xs) q = x :: erase xs q := by
        unfold erase; simp [hx]
      rw [h1, cnt_cons, cnt_cons]
      have := ih hn.2 hm'
      omega

theorem cnt_insertBySeq (x : Nat × Nat) (l : List (Nat × Nat)) (j : Nat) :
    cnt (insertBySeq x l) j = cnt (x :: l) j := by
  induction l with
  | nil => rfl
  | cons y ys ih =>
    unfold insertBySeq
    split
    · rfl
    · rw [cnt_cons, ih, cnt_cons, cnt_cons, cnt_cons]; omega

theorem cnt_sortBySeq (p : List (Nat × Nat)) (j : Nat) : cnt (sortBySeq p) j = cnt p j := by
  induction p with
  | nil => rfl
  | cons x xs ih =>
    show cnt (insertBySeq x (sortBySeq xs)) j = _
    rw [cnt_insertBySeq, cnt_cons, cnt_cons, ih]

theorem mem_insertBySeq {x y : Nat × Nat} {l : List (Nat × Nat)} (h : y ∈ insertBySeq x l) : y ∈ x :: l := by
  induction l with
  | nil => exact h
  | cons z zs ih =>
    unfold insertBySeq at h
    split at h
    · exact h
    · rcases List.mem_cons.mp h with h | h
      · simp [h]
      · have := ih h
        simp at this ⊢
        rcases this with h | h
        · exact Or.inl h
        · exact Or.inr (Or.inr h)

theorem mem_sortBySeq {y : Nat × Nat} {p : List (Nat × Nat)} (h : y ∈ sortBySeq p) : y ∈ p := by
  induction p with
  | nil => exact h
  | cons x xs ih =>
    have h' : y ∈ insertBySeq x (sortBySeq xs) := h
    rcases List.mem_cons.mp (mem_insertBySeq h') with h1 | h1
    · simp [h1]
    · exact List.mem_cons_of_mem _ (ih h1)

/-! ### tokens -/

theorem callInv_iff (s : State) (k : Nat) (c : Call) :
    CallInv s k c ↔ c.k = k ∧
      c.signals + doneTok s k + (senderTok c + pendingTok s k + finTok s k) = 1 ∧
      c.errHist.length + c.replyWrites + (senderTok c + pendingTok s k + finTok s k) ≤ 1 := by
  unfold CallInv owners
  constructor
  · rintro ⟨h1, h2, h3⟩; subst h1; exact ⟨rfl, h2, h3⟩
  · rintro ⟨h1, h2, h3⟩; subst h1; exact ⟨rfl, h2, h3⟩

def rdTok (r : Reader) (k : Nat) : Nat :=
  match r with | .finishing k' _ => if k' == k then 1 else 0 | _ => 0

def finCnt (l : List Task) (k : Nat) : Nat := (l.filter (isFin k)).length
def doneCnt (l : List Task) (k : Nat) : Nat := (l.filter (isDone k)).length

theorem finTok_eq (s : State) (k : Nat) : finTok s k = finCnt s.finQ k + finCnt s.finBag k + rdTok s.reader k := rfl
theorem doneTok_eq (s : State) (k : Nat) : doneTok s k = doneCnt s.finQ k := rfl

@[simp] theorem finCnt_nil (k : Nat) : finCnt [] k = 0 := rfl
@[simp] theorem doneCnt_nil (k : Nat) : doneCnt [] k = 0 := rfl
@[simp] theorem finCnt_append (l r : List Task) (k : Nat) : finCnt (l ++ r) k = finCnt l k + finCnt r k := by
  unfold finCnt; simp
@[simp] theorem doneCnt_append (l r : List Task) (k : Nat) : doneCnt (l ++ r) k = doneCnt l k + doneCnt r k := by
  unfold doneCnt; simp
@[simp] theorem finCnt_cons_fin (j : Nat) (f : Frame) (l : List Task) (k : Nat) :
    finCnt (.fin j f :: l) k = (if j = k then 1 else 0) + finCnt l k := by
  unfold finCnt
  by_cases h : j = k <;> simp [isFin, h] <;> omega
@[simp] theorem finCnt_cons_done (j : Nat) (l : List Task) (k : Nat) :
    finCnt (.done j :: l) k = finCnt l k := by
  unfold finCnt; simp [isFin]
@[simp] theorem doneCnt_cons_done (j : Nat) (l : List Task) (k : Nat) :
    doneCnt (.done j :: l) k = (if j = k then 1 else 0) + doneCnt l k := by
  unfold doneCnt
  by_cases h : j = k <;> simp [isDone, h] <;> omega
@[simp] theorem doneCnt_cons_fin (j : Nat) (f : Frame) (l : List Task) (k : Nat) :
    doneCnt (.fin j f :: l) k = doneCnt l k := by
  unfold doneCnt; simp [isDone]

@[simp] theorem rdTok_waiting (k : Nat) : rdTok .waiting k = 0 := rfl
@[simp] theorem rdTok_decoding (f : Frame) (k : Nat) : rdTok (.decoding f) k = 0 := rfl
@[simp] theorem rdTok_ended (e : Err) (k : Nat) : rdTok (.ended e) k = 0 := rfl
@[simp] theorem rdTok_swept (k : Nat) : rdTok .swept k = 0 := rfl
@[simp] theorem rdTok_wclosed (k : Nat) : rdTok .wclosed k = 0 := rfl
@[simp] theorem rdTok_exited (k : Nat) : rdTok .exited k = 0 := rfl
@[simp] theorem rdTok_finishing (j : Nat) (f : Frame) (k : Nat) :
    rdTok (.finishing j f) k = if j = k then 1 else 0 := by
  unfold rdTok; by_cases h : j = k <;> simp [h]

/-! ### relation between call tables: existence, `k` and `seq` are kept -/

def Ext (m m' : Nat → Option Call) : Prop :=
  ∀ k, (m k = none → m' k = none) ∧
    ∀ c, m k = some c → ∃ c', m' k = some c' ∧ c'.seq = c.seq ∧ c'.k = c.k

theorem Ext.refl (m : Nat → Option Call) : Ext m m :=
  fun _ => ⟨fun h => h, fun c h => ⟨c, h, rfl, rfl⟩⟩

theorem Ext.trans {m m' m'' : Nat → Option Call} (h1 : Ext m m') (h2 : Ext m' m'') : Ext m m'' := by
  intro k
  refine ⟨fun h => (h2 k).1 ((h1 k).1 h), fun c hc => ?_⟩
  obtain ⟨c', hc', hs', hk'⟩ := (h1 k).2 c hc
  obtain ⟨c'', hc'', hs'', hk''⟩ := (h2 k).2 c' hc'
  exact ⟨c'', hc'', hs''.trans hs', hk''.trans hk'⟩

theorem Ext.of_eq {m m' : Nat → Option Call} (h : m' = m) : Ext m m' := by
  subst h; exact Ext.refl _

theorem Ext.upd {m m' : Nat → Option Call} {k : Nat} {f : Call → Call}
    (hm : ∀ j, m' j = if j = k then (m k).map f else m j)
    (hf : ∀ c, (f c).seq = c.seq ∧ (f c).k = c.k) : Ext m m' := by
  intro j
  rw [hm j]
  by_cases hj : j = k
  · subst hj
    simp only [if_true]
    refine ⟨fun h => by simp [h], fun c hc => ⟨f c, by simp [hc], (hf c).1, (hf c).2⟩⟩
  · simp only [hj, if_false]
    exact ⟨fun h => h, fun c hc => ⟨c, hc, rfl, rfl⟩⟩

theorem ext_updCall (s : State) (k : Nat) (f : Call → Call)
    (hf : ∀ c, (f c).seq = c.seq ∧ (f c).k = c.k) : Ext s.calls (updCall s k f).calls :=
  Ext.upd (fun _ => rfl) hf

theorem ext_setErr (s : State) (k : Nat) (e : Err) : Ext s.calls (setErr s k e).calls :=
  Ext.upd (fun _ => rfl) (fun _ => ⟨rfl, rfl⟩)

theorem ext_signal (s : State) (k : Nat) : Ext s.calls (signal s k).calls :=
  Ext.upd (signal_calls s k) (fun _ => ⟨rfl, rfl⟩)

theorem ext_complete (s : State) (k : Nat) : Ext s.calls (complete s k).calls := by
  by_cases hp : s.cfg.pipe = true
  · apply Ext.of_eq; funext j; simp [hp]
  · exact Ext.upd (k := k) (f := fun c => { c with signals := c.signals + 1 }) (fun j => by simp [hp]) (fun _ => ⟨rfl, rfl⟩)

theorem ext_setErr_complete (s : State) (k : Nat) (e : Err) :
    Ext s.calls (complete (setErr s k e) k).calls :=
  (ext_setErr s k e).trans (ext_complete _ k)

/-- transfer of K1 -/
theorem pendingInv_of {s s' : State} (h : PendingInv s)
    (hsub : ∀ x, x ∈ s'.pending → x ∈ s.pending)
    (hnd : (s'.pending.map (·.1)).Nodup) (hseq : s.seq ≤ s'.seq)
    (hext : Ext s.calls s'.calls) : PendingInv s' := by
  refine ⟨hnd, fun q k hm => ?_⟩
  obtain ⟨hlt, c, hc, hcs⟩ := h.2 q k (hsub _ hm)
  obtain ⟨c', hc', hs', _⟩ := (hext k).2 c hc
  exact ⟨by omega, c', hc', hs'.trans hcs⟩

theorem pendingInv_same {s s' : State} (h : PendingInv s)
    (hp : s'.pending = s.pending) (hseq : s'.seq = s.seq)
    (hext : Ext s.calls s'.calls) : PendingInv s' :=
  pendingInv_of h (fun x hx => by rw [← hp]; exact hx) (by rw [hp]; exact h.1) (by omega) hext

theorem ids_of {s s' : State} (h : ∀ k, k ∈ s.ids ↔ (s.calls k).isSome)
    (hi : s'.ids = s.ids) (hext : Ext s.calls s'.calls) : ∀ k, k ∈ s'.ids ↔ (s'.calls k).isSome := by
  intro k
  rw [hi, h k]
  cases hc : s.calls k with
  | none => simp [(hext k).1 hc]
  | some c =>
    obtain ⟨c', hc', _⟩ := (hext k).2 c hc
    simp [hc']

theorem shutdownInv_same {s s' : State} (h : ShutdownInv s)
    (hp : s'.pending = s.pending) (hs : s'.shutdown = s.shutdown) (hr : s'.reader = s.reader) :
    ShutdownInv s' := by
  unfold ShutdownInv at *
  rw [hp, hs, hr]; exact h

/-! ### the strengthened invariant

`Inv` alone is not inductive: it does not forbid completion tasks that name a call id which has
not been started, and `start` would inherit such orphan tokens (see `inv_step_refuted`).
`NoOrphan` closes the gap. -/

/-- no completion task names a call that has not been started -/
def NoOrphan (s : State) : Prop := ∀ k, s.calls k = none → doneTok s k = 0 ∧ finTok s k = 0

def InvS (s : State) : Prop := Inv s ∧ NoOrphan s

/-- token counters in the form used by the proofs -/
def D (s : State) (k : Nat) : Nat := doneCnt s.finQ k
def P (s : State) (k : Nat) : Nat := cnt s.pending k
def F (s : State) (k : Nat) : Nat := finCnt s.finQ k + finCnt s.finBag k + rdTok s.reader k

/-- per-id token accounting, with `x` extra (virtual) owner tokens; `x = 0` is K2 + NoOrphan -/
def TokG (x : Nat) (s : State) (k : Nat) : Prop :=
  (∀ c, s.calls k = some c →
    c.k = k ∧ c.signals + D s k + (senderTok c + P s k + F s k + x) = 1 ∧
      c.errHist.length + c.replyWrites + (senderTok c + P s k + F s k + x) ≤ 1) ∧
  (s.calls k = none → D s k + P s k + F s k + x = 0)

/-- internal form of `InvS` -/
def InvT (s : State) : Prop :=
  (∀ k, TokG 0 s k) ∧ PendingInv s ∧ ShutdownInv s ∧ (∀ k, k ∈ s.ids ↔ (s.calls k).isSome)

theorem invT_of_invS {s : State} (h : InvS s) : InvT s := by
  obtain ⟨⟨h1, h2, h3, h4⟩, ho⟩ := h
  refine ⟨fun k => ⟨fun c hc => ?_, fun hn => ?_⟩, h2, h3, h4⟩
  · have := (callInv_iff _ _ _).1 (h1 k c hc)
    simpa [pendingTok_eq, finTok_eq, doneTok_eq, D, P, F] using this
  · have ⟨hd, hf⟩ := ho k hn
    have hp : P s k = 0 := by
      cases hz : P s k with
      | zero => rfl
      | succ n =>
        exfalso
        obtain ⟨q, hq⟩ := mem_of_cnt_pos (p := s.pending) (k := k) (by unfold P at hz; omega)
        obtain ⟨_, c, hc, _⟩ := h2.2 q k hq
        rw [hn] at hc; cases hc
    rw [doneTok_eq] at hd
    rw [finTok_eq] at hf
    simp only [D, F]
    omega

theorem invS_of_invT {s : State} (h : InvT s) : InvS s := by
  obtain ⟨h1, h2, h3, h4⟩ := h
  refine ⟨⟨fun k c hc => ?_, h2, h3, h4⟩, fun k hn => ?_⟩
  · rw [callInv_iff]
    have := (h1 k).1 c hc
    simpa [pendingTok_eq, finTok_eq, doneTok_eq, D, P, F] using this
  · have := (h1 k).2 hn
    rw [doneTok_eq, finTok_eq]
    simp only [D, P, F] at this
    omega

theorem tok_other {x : Nat} {s s' : State} {j : Nat} (h : TokG x s j) (hc : s'.calls j = s.calls j)
    (hD : D s' j = D s j) (hP : P s' j = P s j) (hF : F s' j = F s j) : TokG x s' j := by
  unfold TokG at *
  rw [hc, hD, hP, hF]; exact h

/-- same relevant fields, reader changed without touching the inline finishCall token -/
theorem invT_congr {s s' : State} (h : InvT s)
    (hc : s'.calls = s.calls) (hp : s'.pending = s.pending) (hq : s'.finQ = s.finQ)
    (hb : s'.finBag = s.finBag) (hseq : s'.seq = s.seq) (hids : s'.ids = s.ids)
    (hr : ∀ k, rdTok s'.reader k = rdTok s.reader k) (hsd : ShutdownInv s') : InvT s' := by
  obtain ⟨h1, h2, _, h4⟩ := h
  refine ⟨fun k => tok_other (h1 k) (by rw [hc]) ?_ ?_ ?_, pendingInv_same h2 hp hseq (Ext.of_eq hc), hsd,
    ids_of h4 hids (Ext.of_eq hc)⟩
  · simp [D, hq]
  · simp [P, hp]
  · simp [F, hq, hb, hr]

theorem invT_same {s s' : State} (h : InvT s)
    (hc : s'.calls = s.calls) (hp : s'.pending = s.pending) (hq : s'.finQ = s.finQ)
    (hb : s'.finBag = s.finBag) (hseq : s'.seq = s.seq) (hids : s'.ids = s.ids)
    (hr : s'.reader = s.reader) (hs : s'.shutdown = s.shutdown) : InvT s' :=
  invT_congr h hc hp hq hb hseq hids (fun k => by rw [hr]) (shutdownInv_same h.2.2.1 hp hs hr)

theorem invT_popSend {s : State} (k : Nat) (h : InvT s) : InvT (popSend s k) :=
  invT_same h (by simp) (by simp) (by simp) (by simp) (by simp) (by simp) (by simp) (by simp)

/-- a function on call records that leaves everything the invariant reads alone, except the phase -/
def Keeps (g : Call → Call) : Prop :=
  ∀ c, (g c).k = c.k ∧ (g c).seq = c.seq ∧ (g c).signals = c.signals ∧ (g c).errHist = c.errHist ∧
    (g c).replyWrites = c.replyWrites

theorem Keeps.ext {g : Call → Call} (hg : Keeps g) : ∀ c, (g c).seq = c.seq ∧ (g c).k = c.k :=
  fun c => ⟨(hg c).2.1, (hg c).1⟩

@[simp] theorem senderTok_errHist (c : Call) (x : List Err) :
    senderTok { c with errHist := x } = senderTok c := rfl
@[simp] theorem senderTok_signals (c : Call) (x : Nat) :
    senderTok { c with signals := x } = senderTok c := rfl
@[simp] theorem senderTok_errHist_signals (c : Call) (x : List Err) (y : Nat) :
    senderTok { c with errHist := x, signals := y } = senderTok c := rfl
@[simp] theorem senderTok_reply (c : Call) (x : Option (Nat × RespKind)) (y : Nat) :
    senderTok { c with replyFrom := x, replyWrites := y } = senderTok c := rfl
@[simp] theorem senderTok_reply_signals (c : Call) (x : Option (Nat × RespKind)) (y z : Nat) :
    senderTok { c with replyFrom := x, replyWrites := y, signals := z } = senderTok c := rfl

/-! ### events -/

/-- wret, brel, wake, cancel, the unregistered error path: one record changes, no token moves -/
theorem invT_updCall {s : State} {k : Nat} {c : Call} {g : Call → Call} (h : InvT s)
    (hc : s.calls k = some c) (hg : Keeps g) (hst : senderTok (g c) = senderTok c) :
    InvT (updCall s k g) := by
  obtain ⟨h1, h2, h3, h4⟩ := h
  have hext : Ext s.calls (updCall s k g).calls := ext_updCall s k g hg.ext
  refine ⟨fun j => ?_, pendingInv_same h2 rfl rfl hext, shutdownInv_same h3 rfl rfl rfl, ids_of h4 rfl hext⟩
  by_cases hj : j = k
  · subst hj
    have hk := (h1 j).1 c hc
    refine ⟨fun c' hc' => ?_, fun hn => ?_⟩
    · simp [hc] at hc'
      subst hc'
      obtain ⟨g1, g2, g3, g4, g5⟩ := hg c
      simp only [D, P, F, updCall_finQ, updCall_finBag, updCall_pending, updCall_reader] at hk ⊢
      rw [g1, g3, g4, g5, hst]
      exact hk
    · simp [hc] at hn
  · exact tok_other (h1 j) (by simp [hj]) rfl rfl rfl

/-- the sender completes its own call with an error (refused send, failed write of a call it
    unregistered itself) -/
theorem invT_fail {s : State} {k : Nat} {c : Call} {g : Call → Call} (e : Err) (h : InvT s)
    (hc : s.calls k = some c) (hst : senderTok c = 1) (hg : Keeps g) (hg0 : ∀ c, senderTok (g c) = 0) :
    InvT (updCall (complete (setErr s k e) k) k g) := by
  obtain ⟨h1, h2, h3, h4⟩ := h
  have hext : Ext s.calls (updCall (complete (setErr s k e) k) k g).calls :=
    (ext_setErr_complete s k e).trans (ext_updCall _ k g hg.ext)
  refine ⟨fun j => ?_, pendingInv_same h2 (by simp) (by simp) hext,
    shutdownInv_same h3 (by simp) (by simp) (by simp), ids_of h4 (by simp) hext⟩
  by_cases hj : j = k
  · subst hj
    have hk := (h1 j).1 c hc
    refine ⟨fun c' hc' => ?_, fun hn => ?_⟩
    · by_cases hp : s.cfg.pipe = true
      · simp [hc, hp] at hc'
        subst hc'
        obtain ⟨g1, g2, g3, g4, g5⟩ := hg { c with errHist := c.errHist ++ [e] }
        simp only [D, P, F] at hk ⊢
        rw [g1, g3, g4, g5, hg0]
        simp [hp] at hk ⊢
        omega
      · simp [hc, hp] at hc'
        subst hc'
        obtain ⟨g1, g2, g3, g4, g5⟩ :=
          hg { c with errHist := c.errHist ++ [e], signals := c.signals + 1 }
        simp only [D, P, F] at hk ⊢
        rw [g1, g3, g4, g5, hg0]
        simp [hp] at hk ⊢
        omega
    · by_cases hp : s.cfg.pipe = true <;> simp [hc, hp] at hn
  · have hj' : ¬ k = j := fun h => hj h.symm
    apply tok_other (h1 j)
    · by_cases hp : s.cfg.pipe = true <;> simp [hj, hp]
    · by_cases hp : s.cfg.pipe = true <;> simp [D, hj', hp]
    · simp [P]
    · by_cases hp : s.cfg.pipe = true <;> simp [F, hp]

/-- send registers the call under a fresh sequence number -/
theorem invT_register {s : State} {k : Nat} {c : Call} {g : Call → Call} (h : InvT s)
    (hc : s.calls k = some c) (hst : senderTok c = 1) (hsh : s.shutdown = false)
    (hg : Keeps g) (hg0 : ∀ c, senderTok (g c) = 0) :
    InvT (updCall (updCall { s with seq := s.seq + 1, pending := s.pending ++ [(s.seq, k)] } k
            fun c => { c with seq := some s.seq }) k g) := by
  obtain ⟨h1, h2, h3, h4⟩ := h
  have hk := (h1 k).1 c hc
  have hP0 : P s k = 0 := by omega
  refine ⟨fun j => ?_, ⟨?_, ?_⟩, ?_, ?_⟩
  · by_cases hj : j = k
    · subst hj
      refine ⟨fun c' hc' => ?_, fun hn => ?_⟩
      · simp [hc] at hc'
        subst hc'
        obtain ⟨g1, g2, g3, g4, g5⟩ := hg { c with seq := some s.seq }
        simp only [D, P, F] at hk hP0 ⊢
        rw [g1, g3, g4, g5, hg0]
        simp [cnt_append, cnt_cons] at hk ⊢
        omega
      · simp [hc] at hn
    · have hj' : ¬ k = j := fun h => hj h.symm
      apply tok_other (h1 j)
      · simp [hj]
      · simp [D]
      · simp [P, cnt_append, cnt_cons, hj']
      · simp [F]
  · simp only [updCall_pending, List.map_append, List.map_cons, List.map_nil]
    rw [List.nodup_append]
    refine ⟨h2.1, by simp, ?_⟩
    intro a ha b hb
    simp at hb
    obtain ⟨x, hx, rfl⟩ := List.mem_map.mp ha
    have := (h2.2 x.1 x.2 hx).1
    omega
  · intro q j hm
    simp only [updCall_pending, List.mem_append, List.mem_singleton] at hm
    rcases hm with hm | hm
    · obtain ⟨hlt, cj, hcj, hsq⟩ := h2.2 q j hm
      have hjk : j ≠ k := by
        intro hjk
        subst hjk
        have := cnt_pos_of_mem hm
        simp only [P] at hP0
        omega
      refine ⟨by simp; omega, cj, by simp [hjk, hcj], hsq⟩
    · cases hm
      refine ⟨by simp, g { c with seq := some s.seq }, by simp [hc], ?_⟩
      rw [(hg _).2.1]
  · refine ⟨fun hs => ?_, fun hr => h3.2 hr⟩
    simp [hsh] at hs
  · intro j
    rw [show (updCall (updCall { s with seq := s.seq + 1, pending := s.pending ++ [(s.seq, k)] } k
            fun c => { c with seq := some s.seq }) k g).ids = s.ids from rfl, h4 j]
    by_cases hj : j = k
    · subst hj; simp [hc]
    · simp [hj]

/-- the error path of send removes the call's own registration -/
theorem invT_unregister {s : State} {k q : Nat} {c : Call} {g : Call → Call} (h : InvT s)
    (hc : s.calls k = some c) (hm : (q, k) ∈ s.pending) (hst : senderTok c = 0)
    (hg : Keeps g) (hg1 : senderTok (g c) = 1) :
    InvT (updCall { s with pending := erase s.pending q } k g) := by
  obtain ⟨h1, h2, h3, h4⟩ := h
  have hext : Ext s.calls (updCall { s with pending := erase s.pending q } k g).calls :=
    ext_updCall { s with pending := erase s.pending q } k g hg.ext
  have hcnt := erase_cnt h2.1 hm
  refine ⟨fun j => ?_, pendingInv_of h2 (fun x hx => erase_mem hx) (erase_nodup q h2.1) (Nat.le_refl _) hext,
    ⟨fun hs => ?_, fun hr => h3.2 hr⟩, ids_of h4 rfl hext⟩
  · by_cases hj : j = k
    · subst hj
      have hk := (h1 j).1 c hc
      refine ⟨fun c' hc' => ?_, fun hn => ?_⟩
      · simp [hc] at hc'
        subst hc'
        obtain ⟨g1, g2, g3, g4, g5⟩ := hg c
        have := hcnt j
        simp only [D, P, F, updCall_finQ, updCall_finBag, updCall_pending, updCall_reader] at hk ⊢
        rw [g1, g3, g4, g5, hg1]
        simp at this
        omega
      · simp [hc] at hn
    · have hj' : ¬ k = j := fun h => hj h.symm
      apply tok_other (h1 j)
      · simp [hj]
      · rfl
      · have := hcnt j
        simp [hj'] at this
        simp [P, this]
      · rfl
  · have : s.pending = [] := h3.1 hs
    rw [this] at hm; cases hm

/-! receive side: a response removes the registration `(q, k)` and hands the call on -/

/-- the response is an error: Error is set and the call completed -/
theorem invT_recvErr {s : State} {k q : Nat} {c : Call} (e : Err) (h : InvT s)
    (hc : s.calls k = some c) (hm : (q, k) ∈ s.pending) :
    InvT (complete (setErr { s with pending := erase s.pending q } k e) k) := by
  obtain ⟨h1, h2, h3, h4⟩ := h
  have hext : Ext s.calls (complete (setErr { s with pending := erase s.pending q } k e) k).calls :=
    ext_setErr_complete { s with pending := erase s.pending q } k e
  have hcnt := erase_cnt h2.1 hm
  refine ⟨fun j => ?_,
    pendingInv_of h2 (fun x hx => erase_mem (by simpa using hx)) (by simpa using erase_nodup q h2.1)
      (by simp) hext,
    ⟨fun hs => ?_, fun hr => ?_⟩, ids_of h4 (by simp) hext⟩
  · by_cases hj : j = k
    · subst hj
      have hk := (h1 j).1 c hc
      have := hcnt j
      simp at this
      refine ⟨fun c' hc' => ?_, fun hn => ?_⟩
      · by_cases hp : s.cfg.pipe = true
        · simp [hc, hp] at hc'
          subst hc'
          simp only [D, P, F] at hk ⊢
          simp [hp] at hk ⊢
          omega
        · simp [hc, hp] at hc'
          subst hc'
          simp only [D, P, F] at hk ⊢
          simp [hp] at hk ⊢
          omega
      · by_cases hp : s.cfg.pipe = true <;> simp [hc, hp] at hn
    · have hj' : ¬ k = j := fun h => hj h.symm
      have := hcnt j
      simp [hj'] at this
      apply tok_other (h1 j)
      · by_cases hp : s.cfg.pipe = true <;> simp [hj, hp]
      · by_cases hp : s.cfg.pipe = true <;> simp [D, hj', hp]
      · simp [P, this]
      · by_cases hp : s.cfg.pipe = true <;> simp [F, hp]
  · simp at hs
    have : s.pending = [] := h3.1 hs
    rw [this] at hm; cases hm
  · simp at hr ⊢
    exact h3.2 hr

/-- the response to a ping: signalled directly -/
theorem invT_recvPing {s : State} {k q : Nat} {c : Call} (h : InvT s)
    (hc : s.calls k = some c) (hm : (q, k) ∈ s.pending) :
    InvT (signal { s with pending := erase s.pending q } k) := by
  obtain ⟨h1, h2, h3, h4⟩ := h
  have hext : Ext s.calls (signal { s with pending := erase s.pending q } k).calls :=
    ext_signal { s with pending := erase s.pending q } k
  have hcnt := erase_cnt h2.1 hm
  refine ⟨fun j => ?_,
    pendingInv_of h2 (fun x hx => erase_mem (by simpa using hx)) (by simpa using erase_nodup q h2.1)
      (by simp) hext,
    ⟨fun hs => ?_, fun hr => ?_⟩, ids_of h4 (by simp) hext⟩
  · by_cases hj : j = k
    · subst hj
      have hk := (h1 j).1 c hc
      have := hcnt j
      simp at this
      refine ⟨fun c' hc' => ?_, fun hn => ?_⟩
      · simp [hc] at hc'
        subst hc'
        simp only [D, P, F] at hk ⊢
        simp at hk ⊢
        omega
      · simp [hc] at hn
    · have hj' : ¬ k = j := fun h => hj h.symm
      have := hcnt j
      simp [hj'] at this
      apply tok_other (h1 j)
      · simp [hj]
      · simp [D]
      · simp [P, this]
      · simp [F]
  · simp at hs
    have : s.pending = [] := h3.1 hs
    rw [this] at hm; cases hm
  · simp at hr ⊢
    exact h3.2 hr

/-- an ordinary response: the registration becomes a finishCall token (queued, concurrent or
    inline) -/
theorem invT_recvFin {s s' : State} {k q : Nat} (h : InvT s) (hm : (q, k) ∈ s.pending)
    (hcalls : s'.calls = s.calls) (hpend : s'.pending = erase s.pending q) (hseq : s'.seq = s.seq)
    (hids : s'.ids = s.ids) (hsh : s'.shutdown = s.shutdown)
    (hD : ∀ j, D s' j = D s j) (hF : ∀ j, F s' j = F s j + if k = j then 1 else 0)
    (hrd : (s'.reader = .swept ∨ s'.reader = .wclosed ∨ s'.reader = .exited) → s'.shutdown = true) :
    InvT s' := by
  obtain ⟨h1, h2, h3, h4⟩ := h
  have hext : Ext s.calls s'.calls := Ext.of_eq hcalls
  have hcnt := erase_cnt h2.1 hm
  refine ⟨fun j => ?_,
    pendingInv_of h2 (fun x hx => erase_mem (by rw [hpend] at hx; exact hx))
      (by rw [hpend]; exact erase_nodup q h2.1) (by omega) hext,
    ⟨fun hs => ?_, hrd⟩, ids_of h4 hids hext⟩
  · have := hcnt j
    have hk := h1 j
    unfold TokG at hk ⊢
    rw [hcalls, hD, hF]
    simp only [P, hpend] at hk ⊢
    refine ⟨fun c hc => ?_, fun hn => ?_⟩
    · have := hk.1 c hc
      omega
    · have := hk.2 hn
      omega
  · rw [hsh] at hs
    have : s.pending = [] := h3.1 hs
    rw [this] at hm; cases hm

theorem F_le_one {s : State} (h : InvT s) (k : Nat) : F s k ≤ 1 := by
  cases hc : s.calls k with
  | none => have := (h.1 k).2 hc; omega
  | some c => have := (h.1 k).1 c hc; omega

theorem ext_finishCall (t : State) (k : Nat) (f : Frame) : Ext t.calls (finishCall t k f).calls := by
  unfold finishCall
  refine Ext.trans ?_ (ext_signal _ k)
  exact ext_updCall t k _ (fun _ => ⟨rfl, rfl⟩)

/-- finishCall runs: `t` is `s` with one finishCall token of `k` taken out -/
theorem invT_finish {s t : State} {k : Nat} (f : Frame) (h : InvT s)
    (hcalls : t.calls = s.calls) (hpend : t.pending = s.pending) (hseq : t.seq = s.seq)
    (hids : t.ids = s.ids) (hsh : t.shutdown = s.shutdown)
    (hD : ∀ j, D t j = D s j) (hF : ∀ j, F t j + (if k = j then 1 else 0) = F s j)
    (hrd : (t.reader = .swept ∨ t.reader = .wclosed ∨ t.reader = .exited) → t.shutdown = true) :
    InvT (finishCall t k f) := by
  obtain ⟨h1, h2, h3, h4⟩ := h
  have hext : Ext s.calls (finishCall t k f).calls := (Ext.of_eq hcalls).trans (ext_finishCall t k f)
  have hD' : ∀ j, D (finishCall t k f) j = D s j := fun j => by rw [← hD j]; simp [D, finishCall]
  have hP' : ∀ j, P (finishCall t k f) j = P s j := fun j => by simp [P, finishCall, hpend]
  have hF' : ∀ j, F (finishCall t k f) j = F t j := fun j => by simp [F, finishCall]
  refine ⟨fun j => ?_, pendingInv_same h2 (by simp [finishCall, hpend]) (by simp [finishCall, hseq]) hext,
    ⟨fun hs => ?_, fun hr => ?_⟩, ids_of h4 (by simp [finishCall, hids]) hext⟩
  · by_cases hj : j = k
    · subst hj
      have hFj := hF j
      simp at hFj
      cases hc : s.calls j with
      | none => have := (h1 j).2 hc; omega
      | some c =>
        have hk := (h1 j).1 c hc
        refine ⟨fun c' hc' => ?_, fun hn => ?_⟩
        · simp [finishCall, hcalls, hc] at hc'
          subst hc'
          rw [hD', hP', hF']
          simp
          omega
        · simp [finishCall, hcalls, hc] at hn
    · have hj' : ¬ k = j := fun h => hj h.symm
      have hFj := hF j
      simp [hj'] at hFj
      apply tok_other (h1 j)
      · simp [finishCall, hj, hcalls]
      · exact hD' j
      · exact hP' j
      · rw [hF', hFj]
  · simp [finishCall, hsh] at hs
    simp [finishCall, hpend]
    exact h3.1 hs
  · simp [finishCall] at hr ⊢
    exact hrd hr

theorem finCnt_filter_ne (l : List Task) (k j : Nat) (p : Task → Bool)
    (hp1 : ∀ k' f, p (.fin k' f) = (k' != k)) (hp2 : ∀ d, p (.done d) = true) :
    finCnt (l.filter p) j = if j = k then 0 else finCnt l j := by
  induction l with
  | nil => simp
  | cons t ts ih =>
    cases t with
    | done d => simp [ih, hp2]
    | fin k' f =>
      by_cases hk : k' = k
      · subst hk
        by_cases hj : j = k'
        · subst hj; simp [ih, hp1]
        · have hj' : ¬ k' = j := fun h => hj h.symm
          simp [ih, hj, hj', hp1]
      · by_cases hj : j = k
        · subst hj; simp [ih, hk, hp1]
        · simp [ih, hk, hj, hp1]

theorem finCnt_pos_of_find {l : List Task} {k : Nat} {t : Task}
    (h : l.find? (fun t => match t with | .fin k' _ => k' == k | _ => false) = some t) :
    0 < finCnt l k ∧ ∃ f, t = .fin k f := by
  have h1 := List.find?_some h
  have h2 := List.mem_of_find?_eq_some h
  cases t with
  | done d => simp at h1
  | fin k' f =>
    simp at h1
    subst h1
    refine ⟨?_, f, rfl⟩
    unfold finCnt
    apply List.length_pos_of_mem (a := .fin k' f)
    simp [h2, isFin]

/-- the completion worker runs a queued `call.done()` -/
theorem invT_runDone {s : State} {k : Nat} {rest : List Task} (h : InvT s)
    (hq : s.finQ = .done k :: rest) : InvT (signal { s with finQ := rest } k) := by
  obtain ⟨h1, h2, h3, h4⟩ := h
  have hext : Ext s.calls (signal { s with finQ := rest } k).calls := ext_signal { s with finQ := rest } k
  refine ⟨fun j => ?_, pendingInv_same h2 (by simp) (by simp) hext,
    shutdownInv_same h3 (by simp) (by simp) (by simp), ids_of h4 (by simp) hext⟩
  by_cases hj : j = k
  · subst hj
    cases hc : s.calls j with
    | none =>
      have := (h1 j).2 hc
      simp [D, hq] at this
    | some c =>
      have hk := (h1 j).1 c hc
      refine ⟨fun c' hc' => ?_, fun hn => ?_⟩
      · simp [hc] at hc'
        subst hc'
        simp only [D, P, F] at hk ⊢
        simp [hq] at hk ⊢
        omega
      · simp [hc] at hn
  · have hj' : ¬ k = j := fun h => hj h.symm
    apply tok_other (h1 j)
    · simp [hj]
    · simp [D, hq, hj']
    · simp [P]
    · simp [F, hq]

/-- a new call -/
theorem invT_start {s s' : State} {c : Call} (h : InvT s) (hn : s.calls c.k = none)
    (hnew : c.phase = .new ∧ c.signals = 0 ∧ c.errHist = [] ∧ c.replyWrites = 0)
    (hcalls : ∀ j, s'.calls j = if j = c.k then some c else s.calls j)
    (hids : s'.ids = s.ids ++ [c.k])
    (hpend : s'.pending = s.pending) (hq : s'.finQ = s.finQ) (hb : s'.finBag = s.finBag)
    (hseq : s'.seq = s.seq) (hr : s'.reader = s.reader) (hsh : s'.shutdown = s.shutdown) : InvT s' := by
  obtain ⟨h1, h2, h3, h4⟩ := h
  have hD : ∀ j, D s' j = D s j := fun j => by simp [D, hq]
  have hP : ∀ j, P s' j = P s j := fun j => by simp [P, hpend]
  have hF : ∀ j, F s' j = F s j := fun j => by simp [F, hq, hb, hr]
  refine ⟨fun j => ?_, ⟨by rw [hpend]; exact h2.1, fun q j hm => ?_⟩, shutdownInv_same h3 hpend hsh hr,
    fun j => ?_⟩
  · by_cases hj : j = c.k
    · subst hj
      have h0 := (h1 c.k).2 hn
      refine ⟨fun c' hc' => ?_, fun hn' => ?_⟩
      · simp [hcalls] at hc'
        subst hc'
        obtain ⟨p1, p2, p3, p4⟩ := hnew
        rw [hD, hP, hF]
        simp [senderTok, p1, p2, p3, p4]
        omega
      · simp [hcalls] at hn'
    · exact tok_other (h1 j) (by simp [hcalls, hj]) (hD j) (hP j) (hF j)
  · rw [hpend] at hm
    obtain ⟨hlt, cj, hcj, hsq⟩ := h2.2 q j hm
    have hjk : j ≠ c.k := by
      intro hjk; rw [hjk, hn] at hcj; cases hcj
    exact ⟨by omega, cj, by simp [hcalls, hjk, hcj], hsq⟩
  · rw [hids, hcalls]
    by_cases hj : j = c.k
    · simp [hj]
    · simp [hj, h4 j]

/-! the final sweep -/

/-- one iteration of the sweep turns one virtual owner token of `k` into an error completion -/
theorem tokG_sweepStep {x : Nat → Nat} {t : State} {k : Nat} (e : Err)
    (h : ∀ j, TokG (x j + if k = j then 1 else 0) t j) :
    ∀ j, TokG (x j) (complete (setErr t k e) k) j := by
  intro j
  by_cases hj : j = k
  · subst hj
    cases hc : t.calls j with
    | none => have := (h j).2 hc; simp at this
    | some c =>
      have hk := (h j).1 c hc
      simp at hk
      refine ⟨fun c' hc' => ?_, fun hn => ?_⟩
      · by_cases hp : t.cfg.pipe = true
        · simp [hc, hp] at hc'
          subst hc'
          simp only [D, P, F] at hk ⊢
          simp [hp] at hk ⊢
          omega
        · simp [hc, hp] at hc'
          subst hc'
          simp only [D, P, F] at hk ⊢
          simp [hp] at hk ⊢
          omega
      · by_cases hp : t.cfg.pipe = true <;> simp [hc, hp] at hn
  · have hj' : ¬ k = j := fun h => hj h.symm
    have hk := h j
    simp [hj'] at hk
    apply tok_other hk
    · by_cases hp : t.cfg.pipe = true <;> simp [hj, hp]
    · by_cases hp : t.cfg.pipe = true <;> simp [D, hj', hp]
    · simp [P]
    · by_cases hp : t.cfg.pipe = true <;> simp [F, hp]

theorem sweep_fold (e : Err) (ps : List (Nat × Nat)) :
    ∀ t : State, (∀ j, TokG (cnt ps j) t j) →
      let t' := ps.foldl (fun s p => complete (setErr s p.2 e) p.2) t
      (∀ j, TokG 0 t' j) ∧ t'.pending = t.pending ∧ t'.seq = t.seq ∧ t'.shutdown = t.shutdown ∧
        t'.reader = t.reader ∧ t'.ids = t.ids ∧ Ext t.calls t'.calls := by
  induction ps with
  | nil =>
    intro t h
    exact ⟨fun j => by simpa using h j, rfl, rfl, rfl, rfl, rfl, Ext.refl _⟩
  | cons p rest ih =>
    intro t h
    have h' : ∀ j, TokG (cnt rest j + if p.2 = j then 1 else 0) t j := fun j => by
      have := h j
      rw [cnt_cons, Nat.add_comm] at this
      exact this
    have hstep := tokG_sweepStep e h'
    obtain ⟨r1, r2, r3, r4, r5, r6, r7⟩ := ih (complete (setErr t p.2 e) p.2) hstep
    simp only [List.foldl_cons]
    refine ⟨r1, ?_, ?_, ?_, ?_, ?_, (ext_setErr_complete t p.2 e).trans r7⟩
    · rw [r2]; simp
    · rw [r3]; simp
    · rw [r4]; simp
    · rw [r5]; simp
    · rw [r6]; simp

theorem invT_sweep_aux {s T : State} {e : Err} (h : InvT s) (hr : s.reader = .ended e)
    (r1 : ∀ j, TokG 0 T j) (r2 : T.pending = []) (r4 : T.shutdown = true) (r5 : T.reader = s.reader)
    (r6 : T.ids = s.ids) (r7 : Ext s.calls T.calls) : InvT { T with reader := .swept } := by
  obtain ⟨h1, h2, h3, h4⟩ := h
  refine ⟨fun j => ?_, ⟨?_, fun q k hm => ?_⟩, ⟨fun _ => ?_, fun _ => ?_⟩, ids_of h4 r6 r7⟩
  · refine tok_other (r1 j) rfl rfl rfl ?_
    simp [F, r5, hr]
  · simp [r2]
  · simp [r2] at hm
  · simp [r2]
  · simp [r4]

theorem invT_sweep {s : State} {e : Err} (h : InvT s) (hr : s.reader = .ended e) :
    InvT { (sortBySeq s.pending).foldl (fun s p => complete (setErr s p.2 e) p.2)
            { s with shutdown := true, pending := [] } with reader := .swept } := by
  have h0 : ∀ j, TokG (cnt (sortBySeq s.pending) j) { s with shutdown := true, pending := [] } j := by
    intro j
    have hk := h.1 j
    unfold TokG at hk ⊢
    rw [cnt_sortBySeq]
    simp only [D, P, F, cnt_nil] at hk ⊢
    refine ⟨fun c hc => ?_, fun hn => ?_⟩
    · have := hk.1 c hc; omega
    · have := hk.2 hn; omega
  obtain ⟨r1, r2, r3, r4, r5, r6, r7⟩ := sweep_fold e (sortBySeq s.pending) _ h0
  exact invT_sweep_aux h hr r1 r2 r4 r5 r6 r7

/-! read(ctx) -/

theorem invT_readFrame {s : State} (f : Frame) (h : InvT s) :
    (∀ k, (readFrame s f).2 = some k → s.cfg.directIO = true ∧
        ((∀ j, rdTok s.reader j = 0) → InvT { (readFrame s f).1 with reader := .finishing k f })) ∧
    ((readFrame s f).2 = none → InvT (readFrame s f).1 ∧ (readFrame s f).1.reader = s.reader) := by
  unfold readFrame
  split
  · exact ⟨fun k hk => by simp at hk, fun _ => ⟨h, rfl⟩⟩
  split
  · exact ⟨fun k hk => by simp at hk, fun _ => ⟨h, rfl⟩⟩
  split
  · exact ⟨fun k hk => by simp at hk, fun _ => ⟨h, rfl⟩⟩
  split
  · exact ⟨fun k hk => by simp at hk, fun _ => ⟨h, rfl⟩⟩
  rename_i k hlk
  have hm : (f.seq, k) ∈ s.pending := lookup_mem hlk
  obtain ⟨_, c, hc, _⟩ := h.2.1.2 _ _ hm
  simp only [getCall_eq, hc]
  split
  · rename_i n
    exact ⟨fun k hk => by simp at hk, fun _ => ⟨invT_recvErr _ h hc hm, by simp⟩⟩
  · exact ⟨fun k hk => by simp at hk, fun _ => ⟨invT_recvErr _ h hc hm, by simp⟩⟩
  · split
    · exact ⟨fun k hk => by simp at hk, fun _ => ⟨invT_recvPing h hc hm, by simp⟩⟩
    · simp only [hand_cfg]
      split
      · refine ⟨fun k hk => by simp at hk, fun _ => ⟨?_, by simp⟩⟩
        refine invT_recvFin h hm (by simp) (by simp) (by simp) (by simp) (by simp) (fun j => by simp [D])
          (fun j => by simp [F]; omega) (fun hr => ?_)
        simp at hr ⊢
        exact h.2.2.1.2 hr
      · split
        · rename_i hd
          refine ⟨fun k' hk' => ⟨hd, fun hrd => ?_⟩, fun hn => by simp at hn⟩
          simp at hk'
          subst hk'
          refine invT_recvFin h hm (by simp) (by simp) (by simp) (by simp) (by simp) (fun j => by simp [D])
            (fun j => by simp [F, hrd]) (fun hr => ?_)
          simp at hr
        · refine ⟨fun k hk => by simp at hk, fun _ => ⟨?_, by simp⟩⟩
          refine invT_recvFin h hm (by simp) (by simp) (by simp) (by simp) (by simp) (fun j => by simp [D])
            (fun j => by simp [F]; omega) (fun hr => ?_)
          simp at hr ⊢
          exact h.2.2.1.2 hr

/-! ### the step theorem -/

theorem keeps_rfl {g : Call → Call}
    (h : ∀ c, (g c).k = c.k ∧ (g c).seq = c.seq ∧ (g c).signals = c.signals ∧ (g c).errHist = c.errHist ∧
      (g c).replyWrites = c.replyWrites) : Keeps g := h

theorem invT_step_start {s s' : State} {c : Call} (h : InvT s) (hs : step s (.start c) = some s') :
    InvT s' := by
  simp only [step] at hs
  split at hs
  · cases hs
  · rename_i hn
    simp at hn
    injection hs with hs
    subst hs
    let c1 : Call :=
      { c with
        phase := .new, seq := none, signals := 0, errHist := [], replyFrom := none, replyWrites := 0,
        returned := false, retErr := none, goReturned := s.cfg.pipe }
    exact invT_start (c := c1) h hn ⟨rfl, rfl, rfl, rfl⟩ (fun j => rfl) rfl rfl rfl rfl rfl rfl rfl

theorem invT_step_sendLock {s s' : State} {k : Nat} (h : InvT s)
    (hs : step s (.sendLock k) = some s') : InvT s' := by
  simp only [step] at hs
  split at hs
  · rename_i c hc
    simp only [getCall_eq] at hc
    split at hs
    · cases hs
    · rename_i hg
      have hph : c.phase = .new := by
        simp at hg; exact hg.1
      have hst : senderTok c = 1 := by simp [senderTok, hph]
      split at hs
      · injection hs with hs
        subst hs
        exact invT_popSend _ (invT_fail .shutdown h hc hst (fun _ => ⟨rfl, rfl, rfl, rfl, rfl⟩)
          (fun _ => by simp [senderTok]))
      · rename_i hsd
        have hsh : s.shutdown = false := by
          simp at hsd; exact hsd.1
        split at hs
        · injection hs with hs
          subst hs
          exact invT_register h hc hst hsh (fun _ => ⟨rfl, rfl, rfl, rfl, rfl⟩) (fun _ => by simp [senderTok])
        · split at hs
          · injection hs with hs
            subst hs
            exact invT_same
              (invT_register (g := fun c => { c with phase := .atWrite }) h hc hst hsh
                (fun _ => ⟨rfl, rfl, rfl, rfl, rfl⟩) (fun _ => by simp [senderTok]))
              rfl rfl rfl rfl rfl rfl rfl rfl
          · injection hs with hs
            subst hs
            apply invT_popSend
            exact invT_same
              (invT_register (g := fun c => { c with phase := .sent, goReturned := true }) h hc hst hsh
                (fun _ => ⟨rfl, rfl, rfl, rfl, rfl⟩) (fun _ => by simp [senderTok]))
              rfl rfl rfl rfl rfl rfl rfl rfl
  · cases hs

theorem invT_step_wret {s s' : State} {k : Nat} {ok : Bool} (h : InvT s)
    (hs : step s (.wret k ok) = some s') : InvT s' := by
  simp only [step] at hs
  split at hs
  · rename_i c hc
    simp only [getCall_eq] at hc
    split at hs
    · cases hs
    · rename_i hg
      have hph : c.phase = .atWrite := by simpa using hg
      split at hs
      · injection hs with hs
        subst hs
        exact invT_popSend _ (invT_updCall h hc (fun _ => ⟨rfl, rfl, rfl, rfl, rfl⟩)
          (by simp [senderTok, hph]))
      · injection hs with hs
        subst hs
        exact invT_updCall h hc (fun _ => ⟨rfl, rfl, rfl, rfl, rfl⟩) (by simp [senderTok, hph])
  · cases hs

theorem invT_step_sendUnreg {s s' : State} {k : Nat} (h : InvT s)
    (hs : step s (.sendUnreg k) = some s') : InvT s' := by
  simp only [step] at hs
  split at hs
  · rename_i c hc
    simp only [getCall_eq] at hc
    split at hs
    · rename_i e q hph hsq
      split at hs
      · rename_i hl
        have hm : (q, k) ∈ s.pending := lookup_mem (by simpa using hl)
        injection hs with hs
        subst hs
        exact invT_unregister h hc hm (by simp [senderTok, hph]) (fun _ => ⟨rfl, rfl, rfl, rfl, rfl⟩)
          (by simp [senderTok])
      · injection hs with hs
        subst hs
        exact invT_updCall h hc (fun _ => ⟨rfl, rfl, rfl, rfl, rfl⟩) (by simp [senderTok, hph])
    · cases hs
  · cases hs

theorem invT_step_sendFail {s s' : State} {k : Nat} (h : InvT s)
    (hs : step s (.sendFail k) = some s') : InvT s' := by
  simp only [step] at hs
  split at hs
  · rename_i c hc
    simp only [getCall_eq] at hc
    split at hs
    · rename_i reg e hph
      injection hs with hs
      subst hs
      apply invT_popSend
      cases reg
      · exact invT_updCall h hc (fun _ => ⟨rfl, rfl, rfl, rfl, rfl⟩) (by simp [senderTok, hph])
      · exact invT_fail e h hc (by simp [senderTok, hph]) (fun _ => ⟨rfl, rfl, rfl, rfl, rfl⟩)
          (fun _ => by simp [senderTok])
    · cases hs
  · cases hs

theorem invT_step_brel {s s' : State} {k : Nat} (h : InvT s)
    (hs : step s (.brel k) = some s') : InvT s' := by
  simp only [step] at hs
  split at hs
  · rename_i c hc
    simp only [getCall_eq] at hc
    split at hs
    · injection hs with hs
      subst hs
      exact invT_updCall h hc (fun _ => ⟨rfl, rfl, rfl, rfl, rfl⟩) rfl
    · cases hs
  · cases hs

theorem invT_step_wake {s s' : State} {k : Nat} (h : InvT s)
    (hs : step s (.wake k) = some s') : InvT s' := by
  simp only [step] at hs
  split at hs
  · rename_i c hc
    simp only [getCall_eq] at hc
    split at hs
    · cases hs
    · split at hs
      · cases hs
      · injection hs with hs
        subst hs
        exact invT_updCall h hc (fun _ => ⟨rfl, rfl, rfl, rfl, rfl⟩) rfl
  · cases hs

theorem invT_step_cancel {s s' : State} {k : Nat} (h : InvT s)
    (hs : step s (.cancel k) = some s') : InvT s' := by
  simp only [step] at hs
  split at hs
  · rename_i c hc
    simp only [getCall_eq] at hc
    split at hs
    · cases hs
    · split at hs
      · cases hs
      · injection hs with hs
        subst hs
        exact invT_updCall h hc (fun _ => ⟨rfl, rfl, rfl, rfl, rfl⟩) rfl
  · cases hs

theorem invT_step_feed {s s' : State} {f : Frame} (h : InvT s)
    (hs : step s (.feed f) = some s') : InvT s' := by
  simp only [step] at hs
  split at hs
  · cases hs
  · rename_i hg
    have hr : s.reader = .waiting := by
      simp at hg; exact hg.1
    split at hs
    · injection hs with hs
      subst hs
      refine invT_congr h rfl rfl rfl rfl rfl rfl (fun k => by simp [hr]) ⟨h.2.2.1.1, fun hr' => ?_⟩
      simp at hr'
    · injection hs with hs
      subst hs
      exact invT_same h rfl rfl rfl rfl rfl rfl rfl rfl

theorem invT_step_rerr {s s' : State} {eof : Bool} (h : InvT s)
    (hs : step s (.rerr eof) = some s') : InvT s' := by
  simp only [step] at hs
  split at hs
  · cases hs
  · rename_i hg
    have hr : s.reader = .waiting := by simpa using hg
    injection hs with hs
    subst hs
    refine invT_congr h rfl rfl rfl rfl rfl rfl (fun k => by simp [hr]) ⟨h.2.2.1.1, fun hr' => ?_⟩
    simp at hr'

theorem invT_step_seeClose {s s' : State} (h : InvT s)
    (hs : step s .seeClose = some s') : InvT s' := by
  simp only [step] at hs
  split at hs
  · rename_i hg
    have hr : s.reader = .waiting := by
      simp at hg; exact hg.1
    injection hs with hs
    subst hs
    refine invT_congr h rfl rfl rfl rfl rfl rfl (fun k => by simp [hr]) ⟨h.2.2.1.1, fun hr' => ?_⟩
    simp at hr'
  · cases hs

theorem invT_step_close {s s' : State} (h : InvT s)
    (hs : step s .close = some s') : InvT s' := by
  simp only [step] at hs
  split at hs
  · injection hs with hs
    subst hs
    exact invT_same h rfl rfl rfl rfl rfl rfl rfl rfl
  · injection hs with hs
    subst hs
    exact invT_same h rfl rfl rfl rfl rfl rfl rfl rfl

theorem invT_step_closeSendQ {s s' : State} (h : InvT s)
    (hs : step s .closeSendQ = some s') : InvT s' := by
  simp only [step] at hs
  split at hs
  · cases hs
  · rename_i hg
    have hr : s.reader = .swept := by simpa using hg
    split at hs
    · cases hs
    · injection hs with hs
      subst hs
      exact invT_congr h rfl rfl rfl rfl rfl rfl (fun k => by simp [hr])
        ⟨h.2.2.1.1, fun _ => h.2.2.1.2 (Or.inl hr)⟩

theorem invT_step_closeFinQ {s s' : State} (h : InvT s)
    (hs : step s .closeFinQ = some s') : InvT s' := by
  simp only [step] at hs
  split at hs
  · cases hs
  · rename_i hg
    have hr : s.reader = .wclosed := by simpa using hg
    split at hs
    · cases hs
    · injection hs with hs
      subst hs
      exact invT_congr h rfl rfl rfl rfl rfl rfl (fun k => by simp [hr])
        ⟨h.2.2.1.1, fun _ => h.2.2.1.2 (Or.inr (Or.inl hr))⟩

theorem invT_step_runDone {s s' : State} (h : InvT s)
    (hs : step s .runDone = some s') : InvT s' := by
  simp only [step] at hs
  split at hs
  · rename_i k rest hq
    injection hs with hs
    subst hs
    exact invT_runDone h hq
  · cases hs

theorem invT_step_sweep {s s' : State} (h : InvT s)
    (hs : step s .sweep = some s') : InvT s' := by
  simp only [step] at hs
  split at hs
  · rename_i e hr
    split at hs
    · cases hs
    · injection hs with hs
      subst hs
      exact invT_sweep h hr
  · cases hs

theorem invT_step_decode {s s' : State} (h : InvT s)
    (hs : step s .decode = some s') : InvT s' := by
  simp only [step] at hs
  split at hs
  · split at hs
    · rename_i f hr
      have hrf := invT_readFrame f h
      split at hs
      · rename_i k hinl
        injection hs with hs
        subst hs
        exact (hrf.1 k hinl).2 (fun j => by simp [hr])
      · rename_i hinl
        injection hs with hs
        subst hs
        obtain ⟨hi, hrr⟩ := hrf.2 hinl
        refine invT_congr hi rfl rfl rfl rfl rfl rfl (fun k => by simp [hrr, hr])
          ⟨hi.2.2.1.1, fun hr' => ?_⟩
        simp at hr'
    · cases hs
  · rename_i hd
    split at hs
    · rename_i f rest hq
      injection hs with hs
      subst hs
      have h' : InvT { s with decodeQ := rest } := invT_same h rfl rfl rfl rfl rfl rfl rfl rfl
      have hrf := invT_readFrame f h'
      cases hinl : (readFrame { s with decodeQ := rest } f).2 with
      | none => exact (hrf.2 hinl).1
      | some k => exact absurd (hrf.1 k hinl).1 hd
    · cases hs

theorem invT_step_finish {s s' : State} {k : Nat} (h : InvT s)
    (hs : step s (.finish k) = some s') : InvT s' := by
  simp only [step] at hs
  split at hs
  · cases hs
  · split at hs
    · rename_i k' f hr
      split at hs
      · rename_i hk
        have hk : k' = k := by simpa using hk
        subst hk
        injection hs with hs
        subst hs
        have ht : InvT (finishCall { s with reader := .waiting } k' f) := by
          refine invT_finish f h rfl rfl rfl rfl rfl (fun j => rfl) (fun j => ?_) (fun hr' => ?_)
          · simp [F, hr]
          · simp at hr'
        refine invT_same ht ?_ ?_ ?_ ?_ ?_ ?_ ?_ ?_
        · funext j; simp [finishCall]
        all_goals simp [finishCall]
      · cases hs
    · rename_i hnf
      have hrd : ∀ j, rdTok s.reader j = 0 := by
        intro j
        cases hr : s.reader with
        | finishing k' f => exact absurd hr (hnf k' f)
        | _ => rfl
      split at hs
      · split at hs
        · rename_i k' f rest hq
          split at hs
          · rename_i hk
            have hk : k' = k := by simpa using hk
            subst hk
            injection hs with hs
            subst hs
            refine invT_finish f h rfl rfl rfl rfl rfl (fun j => ?_) (fun j => ?_) (fun hr' => h.2.2.1.2 hr')
            · simp [D, hq]
            · simp [F, hq]; omega
          · cases hs
        · cases hs
      · split at hs
        · rename_i k1 f hfind
          injection hs with hs
          subst hs
          have hpos := (finCnt_pos_of_find hfind).1
          have hle := F_le_one h k
          refine invT_finish f h rfl rfl rfl rfl rfl (fun j => rfl) (fun j => ?_) (fun hr' => h.2.2.1.2 hr')
          simp only [F] at hle ⊢
          rw [finCnt_filter_ne s.finBag k j _ (fun _ _ => rfl) (fun _ => rfl)]
          by_cases hj : j = k
          · subst hj
            simp
            omega
          · have hj' : ¬ k = j := fun h => hj h.symm
            simp [hj, hj']
        · cases hs

theorem invT_step {s s' : State} {e : Ev} (h : InvT s) (hs : step s e = some s') : InvT s' := by
  cases e with
  | start c => exact invT_step_start h hs
  | wret k ok => exact invT_step_wret h hs
  | brel k => exact invT_step_brel h hs
  | feed f => exact invT_step_feed h hs
  | rerr eof => exact invT_step_rerr h hs
  | cancel k => exact invT_step_cancel h hs
  | close => exact invT_step_close h hs
  | seeClose => exact invT_step_seeClose h hs
  | sendLock k => exact invT_step_sendLock h hs
  | sendUnreg k => exact invT_step_sendUnreg h hs
  | sendFail k => exact invT_step_sendFail h hs
  | decode => exact invT_step_decode h hs
  | finish k => exact invT_step_finish h hs
  | runDone => exact invT_step_runDone h hs
  | sweep => exact invT_step_sweep h hs
  | closeSendQ => exact invT_step_closeSendQ h hs
  | closeFinQ => exact invT_step_closeFinQ h hs
  | wake k => exact invT_step_wake h hs

theorem invT_init (cfg : Cfg) : InvT (init cfg) := by
  refine ⟨fun k => ⟨fun c hc => ?_, fun _ => ?_⟩, ⟨?_, fun q k hm => ?_⟩, ⟨fun hs => ?_, fun hr => ?_⟩,
    fun k => ?_⟩
  · simp [init] at hc
  · simp [init, D, P, F]
  · simp [init]
  · simp [init] at hm
  · simp [init]
  · simp [init] at hr
  · simp [init]

/-! ### the theorems -/

theorem invS_iff_invT (s : State) : InvS s ↔ InvT s := ⟨invT_of_invS, invS_of_invT⟩

theorem invS_init (cfg : Cfg) : InvS (init cfg) := invS_of_invT (invT_init cfg)

/-- `Inv ∧ NoOrphan` is inductive. -/
theorem invS_step (s s' : State) (e : Ev) (h : InvS s) (hs : step s e = some s') : InvS s' :=
  invS_of_invT (invT_step (invT_of_invS h) hs)

theorem invS_accepts_from {s₀ : State} {tr : List Ev} {s : State} (h0 : InvS s₀)
    (h : Accepts s₀ tr s) : InvS s := by
  induction h with
  | nil s => exact h0
  | cons hstep _ ih => exact ih (invS_step _ _ _ h0 hstep)

theorem invS_accepts {cfg : Cfg} {tr : List Ev} {s : State} (h : Accepts (init cfg) tr s) : InvS s :=
  invS_accepts_from (invS_init cfg) h

theorem inv_init (cfg : Cfg) : Inv (init cfg) := (invS_init cfg).1

theorem inv_accepts {cfg : Cfg} {tr : List Ev} {s : State} (h : Accepts (init cfg) tr s) : Inv s :=
  (invS_accepts h).1

theorem noOrphan_accepts {cfg : Cfg} {tr : List Ev} {s : State} (h : Accepts (init cfg) tr s) :
    NoOrphan s :=
  (invS_accepts h).2

/-- C02/C19 (client half): the library sends on a call's Done channel at most once. -/
theorem signals_le_one {cfg : Cfg} {tr : List Ev} {s : State} (h : Accepts (init cfg) tr s)
    (k : Nat) (c : Call) (hc : s.calls k = some c) : c.signals ≤ 1 := by
  have := ((inv_accepts h).1 k c hc).2.1
  omega

/-- Error and Reply together are written at most once per call. -/
theorem err_reply_once {cfg : Cfg} {tr : List Ev} {s : State} (h : Accepts (init cfg) tr s)
    (k : Nat) (c : Call) (hc : s.calls k = some c) : c.errHist.length + c.replyWrites ≤ 1 := by
  have := ((inv_accepts h).1 k c hc).2.2
  omega

/-! ### `Inv` alone is not inductive -/

/-- The statement "`Inv` is preserved by every step from every state" is false: a state whose
    completion queue holds a `done 5` for a call that was never started satisfies `Inv`
    vacuously, and starting call 5 then yields a call with two completion tokens. -/
theorem inv_step_refuted : ¬ ∀ (s s' : State) (e : Ev), Inv s → step s e = some s' → Inv s' := by
  intro hall
  let s0 : State := { init { directIO := false, pipe := true } with finQ := [.done 5] }
  have h0 : Inv s0 := by
    refine ⟨fun k c hc => ?_, ⟨?_, fun q k hm => ?_⟩, ⟨fun hs => ?_, fun hr => ?_⟩, fun k => ?_⟩
    · simp [s0, init] at hc
    · simp [s0, init]
    · simp [s0, init] at hm
    · rfl
    · simp [s0, init] at hr
    · simp [s0, init]
  let c5 : Call := { k := 5, form := .go }
  obtain ⟨s1, hs1⟩ : ∃ s1, step s0 (.start c5) = some s1 := by
    simp [step, s0, init, c5]
  have h1 := hall s0 s1 (.start c5) h0 hs1
  simp [step, s0, init, c5] at hs1
  subst hs1
  have := (h1.1 5 { k := 5, form := .go, goReturned := true } (by simp)).2.1
  simp [doneTok, isDone, owners, senderTok, pendingTok, finTok, isFin] at this

end RpcVerif.K
