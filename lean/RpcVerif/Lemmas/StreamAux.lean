import RpcVerif.Lemmas.StreamShape
/-
  T (the stream layer of one connection), part 2: the inductive invariant, in groups, and its
  preservation by every transition `Tr`.
-/
namespace RpcVerif.T
open RpcVerif

theorem bft {b : Bool} {P : Prop} (h1 : b = false) (h2 : b = true) : P := by rw [h1] at h2; cases h2
theorem nilcons {α : Type} {a : α} {l l' : List α} {P : Prop} (h1 : l' = []) (h2 : l' = a :: l) : P := by
  rw [h1] at h2; cases h2

/-- the frames on their way to the server's `ServeRequest`, oldest first -/
abbrev up (s : State) : List Frame := s.sDecodeQ ++ s.c2s
/-- the frames on their way to the client's `read`, oldest first -/
abbrev dn (s : State) : List Frame := s.cDecodeQ ++ s.s2c

/-! ### G: connection-level facts -/

structure InvG (s : State) : Prop where
  tdCut : s.sTornDown = true → s.cut = true
  cDirQ : s.cfg.cDirect = true → s.cStreamQ = [] ∧ s.cDecodeQ = []
  sDirQ : s.cfg.sDirect = true → s.sStreamQ = [] ∧ s.sDecodeQ = []
  tdEnd : s.sTornDown = true → s.sDecodeQ = [] ∧ s.sEnded = true

theorem CPop.dq_nil {s : State} {f : Frame} {dq s2c' : List Frame} (h : InvG s) (hp : CPop s f dq s2c')
    (hd : s.cfg.cDirect = true) : dq = [] := by
  rcases hp with ⟨_, _, _, h4⟩ | ⟨h1, _⟩
  · rw [h4]; exact (h.cDirQ hd).2
  · rw [(h.cDirQ hd).2] at h1; cases h1

theorem CPop.dn_eq {s : State} {f : Frame} {dq s2c' : List Frame} (h : InvG s) (hp : CPop s f dq s2c') :
    dn s = f :: (dq ++ s2c') := by
  unfold dn
  rcases hp with ⟨h1, _, h3, h4⟩ | ⟨h1, h2⟩
  · rw [h4, (h.cDirQ h1).2, h3]; rfl
  · rw [h1, h2]; rfl

theorem SPop.dq_nil {s : State} {f : Frame} {dq c2s' : List Frame} (h : InvG s) (hp : SPop s f dq c2s')
    (hd : s.cfg.sDirect = true) : dq = [] := by
  rcases hp with ⟨_, _, _, h4⟩ | ⟨h1, _⟩
  · rw [h4]; exact (h.sDirQ hd).2
  · rw [(h.sDirQ hd).2] at h1; cases h1

theorem SPop.up_eq {s : State} {f : Frame} {dq c2s' : List Frame} (h : InvG s) (hp : SPop s f dq c2s') :
    up s = f :: (dq ++ c2s') := by
  unfold up
  rcases hp with ⟨h1, _, h3, h4⟩ | ⟨h1, h2⟩
  · rw [h4, (h.sDirQ h1).2, h3]; rfl
  · rw [h1, h2]; rfl

theorem SPop.notTorn {s : State} {f : Frame} {dq c2s' : List Frame} (h : InvG s) (hp : SPop s f dq c2s') :
    s.sTornDown = false := by
  rcases Bool.eq_false_or_eq_true s.sTornDown with ht | ht
  · exfalso
    obtain ⟨h1, h2⟩ := h.tdEnd ht
    rcases hp with ⟨_, h3, _, _⟩ | ⟨h3, _⟩
    · rw [h2] at h3; cases h3
    · rw [h1] at h3; cases h3
  · exact ht

theorem invG_init (cfg : Cfg) : InvG (init cfg) :=
  ⟨fun h => (by cases h), fun _ => ⟨rfl, rfl⟩, fun _ => ⟨rfl, rfl⟩, fun h => (by cases h)⟩

theorem invG_tr {s s' : State} (h : InvG s) (t : Tr s s') : InvG s' := by
  have hcp : ∀ {f dq s2c'}, CPop s f dq s2c' → s.cfg.cDirect = true → s.cStreamQ = [] ∧ dq = [] :=
    fun hp hd => ⟨(h.cDirQ hd).1, hp.dq_nil h hd⟩
  have hsp : ∀ {f dq c2s'}, SPop s f dq c2s' → s.cfg.sDirect = true → s.sStreamQ = [] ∧ dq = [] :=
    fun hp hd => ⟨(h.sDirQ hd).1, hp.dq_nil h hd⟩
  have hspt : ∀ {f dq c2s'}, SPop s f dq c2s' → s.sTornDown = true → dq = [] ∧ s.sEnded = true :=
    fun hp ht => bft (hp.notTorn h) ht
  cases t
  case cRecvQ f rest _ _ hd => exact ⟨h.tdCut, fun hh => bft hd hh, h.sDirQ, h.tdEnd⟩
  case cpSkip f dq s2c' hp _ => exact ⟨h.tdCut, hcp hp, h.sDirQ, h.tdEnd⟩
  case cpCloseDone f dq s2c' c hp _ _ _ => exact ⟨h.tdCut, hcp hp, h.sDirQ, h.tdEnd⟩
  case cpOpened f dq s2c' c hp _ _ _ _ => exact ⟨h.tdCut, hcp hp, h.sDirQ, h.tdEnd⟩
  case cpMsgD f dq s2c' c hp _ _ _ _ _ => exact ⟨h.tdCut, hcp hp, h.sDirQ, h.tdEnd⟩
  case cpMsgQ f dq s2c' c hp _ _ _ _ hd => exact ⟨h.tdCut, fun hh => bft hd hh, h.sDirQ, h.tdEnd⟩
  case cpUnary f dq s2c' hp _ _ => exact ⟨h.tdCut, hcp hp, h.sDirQ, h.tdEnd⟩
  case cStreamRun t rest hl =>
    exact ⟨h.tdCut, fun hh => nilcons (h.cDirQ hh).1 hl, h.sDirQ, h.tdEnd⟩
  case sRecvQ f rest he _ hd =>
    exact ⟨h.tdCut, h.cDirQ, fun hh => bft hd hh,
      fun hh => bft he (h.tdEnd hh).2⟩
  case spOpen q dq c2s' hp _ => exact ⟨h.tdCut, h.cDirQ, hsp hp, hspt hp⟩
  case spClose q dq c2s' hp => exact ⟨h.tdCut, h.cDirQ, hsp hp, hspt hp⟩
  case spSkip f dq c2s' hp _ => exact ⟨h.tdCut, h.cDirQ, hsp hp, hspt hp⟩
  case spMsgD q m dq c2s' t hp _ _ _ => exact ⟨h.tdCut, h.cDirQ, hsp hp, hspt hp⟩
  case spMsgQ q m dq c2s' t hp _ _ hd =>
    exact ⟨h.tdCut, h.cDirQ, fun hh => bft hd hh, hspt hp⟩
  case spOther q dq c2s' hp => exact ⟨h.tdCut, h.cDirQ, hsp hp, hspt hp⟩
  case sStreamRun t rest hl =>
    exact ⟨h.tdCut, h.cDirQ, fun hh => nilcons (h.sDirQ hh).1 hl, h.tdEnd⟩
  case sEnd => exact ⟨h.tdCut, h.cDirQ, h.sDirQ, fun hh => ⟨(h.tdEnd hh).1, rfl⟩⟩
  case sFinal he hc hd hq => exact ⟨fun _ => hc, h.cDirQ, h.sDirQ, fun _ => ⟨hd, he⟩⟩
  case cutLink kc ks _ => exact ⟨fun _ => rfl, h.cDirQ, h.sDirQ, h.tdEnd⟩
  all_goals exact ⟨h.tdCut, h.cDirQ, h.sDirQ, h.tdEnd⟩

/-! ### membership in updated stream tables -/

theorem mem_updC {q : Nat} {g : CStream → CStream} {cs : List CStream} {c' : CStream} (h : c' ∈ updC q g cs) :
    (c' ∈ cs ∧ c'.seq ≠ q) ∨ ∃ c ∈ cs, c.seq = q ∧ c' = g c := by
  unfold updC at h
  rw [List.mem_map] at h
  obtain ⟨c, hc, he⟩ := h
  split at he
  · rename_i hq
    exact Or.inr ⟨c, hc, by simpa using hq, he.symm⟩
  · rename_i hq
    subst he
    exact Or.inl ⟨hc, by simpa using hq⟩

theorem mem_updS {q : Nat} {g : SStream → SStream} {ss : List SStream} {t' : SStream} (h : t' ∈ updS q g ss) :
    (t' ∈ ss ∧ t'.seq ≠ q) ∨ ∃ t ∈ ss, t.seq = q ∧ t' = g t := by
  unfold updS at h
  rw [List.mem_map] at h
  obtain ⟨c, hc, he⟩ := h
  split at he
  · rename_i hq
    exact Or.inr ⟨c, hc, by simpa using hq, he.symm⟩
  · rename_i hq
    subst he
    exact Or.inl ⟨hc, by simpa using hq⟩

theorem forall_updC {P : CStream → Prop} {q : Nat} {g : CStream → CStream} {cs : List CStream}
    (h : ∀ c ∈ cs, P c) (hg : ∀ c ∈ cs, c.seq = q → P (g c)) : ∀ c ∈ updC q g cs, P c := by
  intro c' hc'
  rcases mem_updC hc' with ⟨h1, _⟩ | ⟨c, hc, hq, rfl⟩
  · exact h _ h1
  · exact hg c hc hq

theorem forall_updS {P : SStream → Prop} {q : Nat} {g : SStream → SStream} {ss : List SStream}
    (h : ∀ t ∈ ss, P t) (hg : ∀ t ∈ ss, t.seq = q → P (g t)) : ∀ t ∈ updS q g ss, P t := by
  intro c' hc'
  rcases mem_updS hc' with ⟨h1, _⟩ | ⟨c, hc, hq, rfl⟩
  · exact h _ h1
  · exact hg c hc hq

theorem nodup_unique {α : Type} {f : α → Nat} : ∀ {l : List α}, (l.map f).Nodup → ∀ {a b : α}, a ∈ l → b ∈ l → f a = f b → a = b
  | [], _, _, _, ha, _, _ => by cases ha
  | x :: l, hn, a, b, ha, hb, hab => by
    rw [List.map_cons, List.nodup_cons] at hn
    rcases List.mem_cons.1 ha with rfl | ha'
    · rcases List.mem_cons.1 hb with rfl | hb'
      · rfl
      · exact absurd (by rw [hab]; exact List.mem_map_of_mem hb') hn.1
    · rcases List.mem_cons.1 hb with rfl | hb'
      · exact absurd (by rw [← hab]; exact List.mem_map_of_mem ha') hn.1
      · exact nodup_unique hn.2 ha' hb' hab

theorem getC_unique {s : State} {q : Nat} {c c' : CStream} (hn : (s.cs.map (·.seq)).Nodup) (h : getC s q = some c)
    (hc' : c' ∈ s.cs) (hq : c'.seq = q) : c' = c :=
  nodup_unique hn hc' (getC_some h).1 (hq.trans (getC_some h).2.symm)

theorem getS_unique {s : State} {q : Nat} {t t' : SStream} (hn : (s.ss.map (·.seq)).Nodup) (h : getS s q = some t)
    (ht' : t' ∈ s.ss) (hq : t'.seq = q) : t' = t :=
  nodup_unique hn ht' (getS_some h).1 (hq.trans (getS_some h).2.symm)

/-- with distinct sequence numbers an update touches exactly the stream that the lookup found -/
theorem forall_updC_get {P : CStream → Prop} {s : State} {q : Nat} {g : CStream → CStream} {c : CStream}
    (hn : (s.cs.map (·.seq)).Nodup) (hget : getC s q = some c)
    (h : ∀ c ∈ s.cs, P c) (hg : P (g c)) : ∀ c ∈ updC q g s.cs, P c :=
  forall_updC h fun c0 hc0 hq => by rw [getC_unique hn hget hc0 hq]; exact hg

theorem forall_updS_get {P : SStream → Prop} {s : State} {q : Nat} {g : SStream → SStream} {t : SStream}
    (hn : (s.ss.map (·.seq)).Nodup) (hget : getS s q = some t)
    (h : ∀ t ∈ s.ss, P t) (hg : P (g t)) : ∀ t ∈ updS q g s.ss, P t :=
  forall_updS h fun c0 hc0 hq => by rw [getS_unique hn hget hc0 hq]; exact hg

/-! ### L: facts about one stream -/

def COk (c : CStream) : Prop :=
  EndOk c.e ∧
  (c.phase = .opening → c.e.delivered = [] ∧ c.e.events = [] ∧ c.opened = false ∧ c.e.written = []) ∧
  (c.opened = true → c.phase = .streaming) ∧
  (c.pend = .closeCall → c.e.closed = true) ∧
  (c.e.closed = false → c.inStreams = true) ∧
  (c.pend = .none → c.e.closed = true)

def SOk (t : SStream) : Prop :=
  EndOk t.e ∧ (t.inTable = false → t.e.closed = true) ∧ t.acked = true

/-- client stream `c` is fine, and stopped if the client has shut down -/
def CL (shut : Bool) (c : CStream) : Prop := COk c ∧ (shut = true → c.e.closed = true)
def SL (torn : Bool) (t : SStream) : Prop := SOk t ∧ (torn = true → t.e.closed = true)

structure InvL (s : State) : Prop where
  c : ∀ c ∈ s.cs, CL s.cShutdown c
  s : ∀ t ∈ s.ss, SL s.sTornDown t

theorem COk.endOk {c : CStream} (h : COk c) : EndOk c.e := h.1
theorem COk.opening {c : CStream} (h : COk c) (hp : c.phase = .opening) :
    c.e.delivered = [] ∧ c.e.events = [] ∧ c.opened = false ∧ c.e.written = [] := h.2.1 hp
theorem COk.streaming {c : CStream} (h : COk c) (ho : c.opened = true) : c.phase = .streaming := h.2.2.1 ho
theorem COk.closeCall {c : CStream} (h : COk c) (hp : c.pend = .closeCall) : c.e.closed = true := h.2.2.2.1 hp
theorem COk.inStreams {c : CStream} (h : COk c) (hp : c.e.closed = false) : c.inStreams = true := h.2.2.2.2.1 hp
theorem COk.pendNone {c : CStream} (h : COk c) (hp : c.pend = .none) : c.e.closed = true := h.2.2.2.2.2 hp
theorem COk.notOpening {c : CStream} (h : COk c) (ho : c.opened = true) {P : Prop} (hp : c.phase = .opening) : P := by
  rw [(h.opening hp).2.2.1] at ho; cases ho
/-- an open client end still has its opening call registered -/
theorem COk.live {c : CStream} (h : COk c) (hc : c.e.closed = false) : c.pend = .openCall := by
  cases hp : c.pend with
  | none => exact bft hc (h.pendNone hp)
  | closeCall => exact bft hc (h.closeCall hp)
  | openCall => rfl

theorem sweepC_fields (hf : allFlags = true) (c : CStream) :
    (sweepC c).seq = c.seq ∧ (sweepC c).phase = c.phase ∧ (sweepC c).opened = c.opened ∧ (sweepC c).pend = .none ∧
    (sweepC c).inStreams = false ∧ (sweepC c).e = (if c.inStreams then c.e.stop else c.e) := by
  obtain ⟨-, -, h3, -⟩ := allFlags_split hf
  unfold sweepC
  simp only [h3, ↓reduceIte]
  cases hp : c.pend <;> cases hi : c.inStreams <;> simp [hp, hi]

theorem sweepC_closed (hf : allFlags = true) {c : CStream} (h : COk c) : (sweepC c).e.closed = true := by
  rw [(sweepC_fields hf c).2.2.2.2.2]
  split
  · exact stop_closed _
  · rename_i hi
    rcases Bool.eq_false_or_eq_true c.e.closed with hc | hc
    · exact hc
    · exact absurd (h.inStreams hc) hi


theorem CL_trigC {sh : Bool} {c : CStream} (v : Nat) (h : CL sh c) : CL sh (trigC v c) := by
  unfold trigC
  split
  · rename_i hp
    have hp' : c.phase = .streaming := by simpa using hp
    obtain ⟨⟨h1, h2, h3, h4, h5, h6⟩, h7⟩ := h
    refine ⟨⟨endOk_trigger _ _ h1, fun hh => ?_, h3, ?_, ?_, ?_⟩, ?_⟩
    · have hh' : c.phase = .opening := hh
      rw [hp'] at hh'; cases hh'
    · intro hh; show (c.e.trigger v).closed = true; rw [trigger_closed]; exact h4 hh
    · intro hh; apply h5; rw [← trigger_closed c.e v]; exact hh
    · intro hh; show (c.e.trigger v).closed = true; rw [trigger_closed]; exact h6 hh
    · intro hh; show (c.e.trigger v).closed = true; rw [trigger_closed]; exact h7 hh
  · exact h

theorem SL_trigger {td : Bool} {t : SStream} (v : Nat) (h : SL td t) : SL td { t with e := t.e.trigger v } := by
  obtain ⟨⟨h1, h2, h3⟩, h4⟩ := h
  refine ⟨⟨endOk_trigger _ _ h1, ?_, h3⟩, ?_⟩
  · intro hh; show (t.e.trigger v).closed = true; rw [trigger_closed]; exact h2 hh
  · intro hh; show (t.e.trigger v).closed = true; rw [trigger_closed]; exact h4 hh

theorem CL_stop (hf : allFlags = true) {sh : Bool} {c : CStream} (h : CL sh c) (ho : c.opened = true)
    (c' : CStream) (h1 : c'.e = c.e.stop) (h2 : c'.phase = c.phase) (_h3 : c'.opened = c.opened) : CL sh c' := by
  have hcl : c'.e.closed = true := by rw [h1]; exact stop_closed _
  refine ⟨⟨by rw [h1]; exact endOk_stop hf _ h.1.1, fun hh => ?_, fun _ => ?_, fun _ => hcl, fun hh => ?_, fun _ => hcl⟩, fun _ => hcl⟩
  · rw [h2] at hh; exact h.1.notOpening ho hh
  · rw [h2]; exact h.1.streaming ho
  · rw [hcl] at hh; cases hh

theorem invL_init (cfg : Cfg) : InvL (init cfg) :=
  ⟨fun _ h => (by cases h), fun _ h => (by cases h)⟩

theorem invL_tr (hf : allFlags = true) {s s' : State} (hG : InvG s) (hnc : (s.cs.map (·.seq)).Nodup)
    (hns : (s.ss.map (·.seq)).Nodup) (h : InvL s) (t : Tr s s') : InvL s' := by
  cases t
  case cOpen hsh =>
    refine ⟨fun c hc => ?_, h.s⟩
    rcases List.mem_append.1 hc with hc | hc
    · exact h.c c hc
    · rw [List.mem_singleton] at hc
      subst hc
      exact ⟨⟨endOk_default, fun _ => ⟨rfl, rfl, rfl, rfl⟩, fun hh => (by cases hh), fun hh => (by cases hh), fun _ => rfl,
        fun hh => (by cases hh)⟩, fun hh => bft hsh hh⟩
  case cWriteErr q c hc ho hcl => exact ⟨forall_updC h.c fun c hc _ => h.c c hc, h.s⟩
  case cWriteOk q m c hc ho hcl hsh =>
    refine ⟨forall_updC_get hnc hc h.c ?_, h.s⟩
    obtain ⟨⟨h1, h2, h3, h4, h5, h6⟩, h7⟩ := h.c c (getC_some hc).1
    exact ⟨⟨h1, fun hh => (h.c c (getC_some hc).1).1.notOpening ho hh, h3, h4, h5, h6⟩, h7⟩
  case cRead q c e' hc ho hr =>
    refine ⟨forall_updC_get hnc hc h.c ?_, h.s⟩
    obtain ⟨⟨h1, h2, h3, h4, h5, h6⟩, h7⟩ := h.c c (getC_some hc).1
    obtain ⟨r1, r2, r3⟩ := read_hist _ _ hr
    refine ⟨⟨endOk_read _ _ hr h1, fun hh => (h.c c (getC_some hc).1).1.notOpening ho hh, h3, ?_, ?_, ?_⟩, ?_⟩
    · intro hh; show e'.closed = true; rw [r2]; exact h4 hh
    · intro hh; apply h5; rw [← r2]; exact hh
    · intro hh; show e'.closed = true; rw [r2]; exact h6 hh
    · intro hh; show e'.closed = true; rw [r2]; exact h7 hh
  case cCloseShut q c hc ho hsh =>
    exact ⟨forall_updC_get hnc hc h.c (CL_stop hf (h.c c (getC_some hc).1) ho _ rfl rfl rfl), h.s⟩
  case cCloseSend q c hc ho hsh =>
    exact ⟨forall_updC_get hnc hc h.c (CL_stop hf (h.c c (getC_some hc).1) ho _ rfl rfl rfl), h.s⟩
  case cpCloseDone f dq s2c' c hp hsh hc hpe =>
    refine ⟨forall_updC_get hnc hc h.c ?_, h.s⟩
    obtain ⟨⟨h1, h2, h3, h4, h5, h6⟩, h7⟩ := h.c c (getC_some hc).1
    exact ⟨⟨h1, h2, h3, fun hh => (by cases hh), fun hh => bft hh (h4 hpe), fun _ => h4 hpe⟩, h7⟩
  case cpOpened f dq s2c' c hp hsh hc hpe hph =>
    refine ⟨forall_updC h.c fun c0 hc0 _ => ?_, h.s⟩
    obtain ⟨⟨h1, h2, h3, h4, h5, h6⟩, h7⟩ := h.c c0 hc0
    exact ⟨⟨h1, fun hh => (by cases hh), fun _ => rfl, h4, h5, h6⟩, h7⟩
  case cpMsgD f dq s2c' c hp hsh hc hpe hph hd =>
    exact ⟨forall_updC h.c fun c0 hc0 _ => CL_trigC _ (h.c c0 hc0), h.s⟩
  case cStreamRun t rest hl =>
    exact ⟨forall_updC h.c fun c0 hc0 _ => CL_trigC _ (h.c c0 hc0), h.s⟩
  case cSweep hsh hcut h1 h2 =>
    refine ⟨fun c' hc' => ?_, h.s⟩
    obtain ⟨c, hc, rfl⟩ := List.mem_map.1 hc'
    have hok := (h.c c hc).1
    have hcl := sweepC_closed hf hok
    obtain ⟨f1, f2, f3, f4, f5, f6⟩ := sweepC_fields hf c
    refine ⟨⟨?_, fun hh => ?_, fun hh => ?_, fun _ => hcl, fun hh => bft hh hcl, fun _ => hcl⟩, fun _ => hcl⟩
    · rw [f6]; split
      · exact endOk_stop hf _ hok.1
      · exact hok.1
    · rw [f2] at hh
      obtain ⟨g1, g2, g3, g4⟩ := hok.opening hh
      rw [f3, f6]
      split
      · rw [stop_delivered, stop_events, stop_written]; exact ⟨g1, g2, g3, g4⟩
      · exact ⟨g1, g2, g3, g4⟩
    · rw [f3] at hh; rw [f2]; exact hok.streaming hh
  case spOpen q dq c2s' hp hn =>
    refine ⟨h.c, fun t ht => ?_⟩
    rcases List.mem_append.1 ht with ht | ht
    · exact h.s t ht
    · rw [List.mem_singleton] at ht
      subst ht
      exact ⟨⟨endOk_default, fun hh => (by cases hh), rfl⟩, fun hh => bft (hp.notTorn hG) hh⟩
  case spClose q dq c2s' hp =>
    obtain ⟨-, -, -, -, h5, -, -⟩ := allFlags_split hf
    refine ⟨h.c, forall_updS h.s fun t ht _ => ?_⟩
    split
    · obtain ⟨⟨h1, h2, h3⟩, h4⟩ := h.s t ht
      exact ⟨⟨endOk_stop hf _ h1, fun _ => stop_closed _, h3⟩, fun _ => stop_closed _⟩
    · exact h.s t ht
  case spMsgD q m dq c2s' t hp ht hin hd =>
    exact ⟨h.c, forall_updS h.s fun t ht _ => SL_trigger _ (h.s t ht)⟩
  case sStreamRun t rest hl =>
    exact ⟨h.c, forall_updS h.s fun t ht _ => SL_trigger _ (h.s t ht)⟩
  case sFinal he hc hd hq =>
    refine ⟨h.c, fun t' ht' => ?_⟩
    obtain ⟨t, ht, rfl⟩ := List.mem_map.1 ht'
    obtain ⟨⟨h1, h2, h3⟩, h4⟩ := h.s t ht
    split
    · exact ⟨⟨endOk_stop hf _ h1, fun _ => stop_closed _, h3⟩, fun _ => stop_closed _⟩
    · rename_i hi
      exact ⟨⟨h1, h2, h3⟩, fun _ => h2 (by simpa using hi)⟩
  case sWriteErr q t ht => exact ⟨h.c, forall_updS h.s fun t ht _ => h.s t ht⟩
  case sWriteOk q m t ht _ _ _ => exact ⟨h.c, forall_updS h.s fun t ht _ => h.s t ht⟩
  case sExit q t ht => exact ⟨h.c, forall_updS h.s fun t ht _ => h.s t ht⟩
  case sRead q t e' ht hr =>
    refine ⟨h.c, forall_updS_get hns ht h.s ?_⟩
    obtain ⟨⟨h1, h2, h3⟩, h4⟩ := h.s t (getS_some ht).1
    obtain ⟨r1, r2, r3⟩ := read_hist _ _ hr
    refine ⟨⟨endOk_read _ _ hr h1, ?_, h3⟩, ?_⟩
    · intro hh; show e'.closed = true; rw [r2]; exact h2 hh
    · intro hh; show e'.closed = true; rw [r2]; exact h4 hh
  all_goals exact ⟨h.c, h.s⟩


/-! ### Q: sequence numbers -/

/-- the sequence numbers of the client streams / of the server streams -/
abbrev cseqs (s : State) : List Nat := s.cs.map (·.seq)
abbrev sseqs (s : State) : List Nat := s.ss.map (·.seq)

structure InvQ (s : State) : Prop where
  nc : (cseqs s).Nodup
  ns : (sseqs s).Nodup
  sc : ∀ q ∈ sseqs s, q ∈ cseqs s
  clt : ∀ q ∈ cseqs s, q < s.nextSeq
  uc : ∀ u ∈ s.ucalls, u.1 < s.nextSeq ∧ u.1 ∉ cseqs s
  fup : ∀ f ∈ up s, f.seq < s.nextSeq
  fdn : ∀ f ∈ dn s, f.seq < s.nextSeq
  tc : ∀ t ∈ s.cStreamQ, t.1 < s.nextSeq
  ts : ∀ t ∈ s.sStreamQ, t.1 < s.nextSeq
  oc : ∀ f ∈ up s, f.kind = .open → f.seq ∈ cseqs s

theorem updC_seqs {q : Nat} {g : CStream → CStream} (hg : ∀ c, (g c).seq = c.seq) (cs : List CStream) :
    (updC q g cs).map (·.seq) = cs.map (·.seq) := by
  unfold updC
  rw [List.map_map]
  apply List.map_congr_left
  intro c _
  simp only [Function.comp]
  split
  · exact hg c
  · rfl

theorem updS_seqs {q : Nat} {g : SStream → SStream} (hg : ∀ c, (g c).seq = c.seq) (cs : List SStream) :
    (updS q g cs).map (·.seq) = cs.map (·.seq) := by
  unfold updS
  rw [List.map_map]
  apply List.map_congr_left
  intro c _
  simp only [Function.comp]
  split
  · exact hg c
  · rfl

theorem trigC_seq (v : Nat) (c : CStream) : (trigC v c).seq = c.seq := by
  unfold trigC; split <;> rfl

theorem mem_cseqs {s : State} {c : CStream} (h : c ∈ s.cs) : c.seq ∈ cseqs s := List.mem_map_of_mem h
theorem mem_sseqs {s : State} {t : SStream} (h : t ∈ s.ss) : t.seq ∈ sseqs s := List.mem_map_of_mem h
theorem of_mem_cseqs {s : State} {q : Nat} (h : q ∈ cseqs s) : ∃ c ∈ s.cs, c.seq = q := by
  simpa [cseqs] using h
theorem of_mem_sseqs {s : State} {q : Nat} (h : q ∈ sseqs s) : ∃ c ∈ s.ss, c.seq = q := by
  simpa [sseqs] using h

theorem mem_pushC {s : State} {f f' : Frame} (h : f' ∈ pushC s f) : f' ∈ s.c2s ∨ (f' = f ∧ s.cut = false) := by
  unfold pushC at h
  split at h
  · exact Or.inl h
  · rename_i hc
    rcases List.mem_append.1 h with h | h
    · exact Or.inl h
    · exact Or.inr ⟨by simpa using h, by simpa using hc⟩

theorem mem_pushS {s : State} {f f' : Frame} (h : f' ∈ pushS s f) : f' ∈ s.s2c ∨ (f' = f ∧ s.cut = false) := by
  unfold pushS at h
  split at h
  · exact Or.inl h
  · rename_i hc
    simp only [Bool.or_eq_true, not_or, Bool.not_eq_true] at hc
    rcases List.mem_append.1 h with h | h
    · exact Or.inl h
    · exact Or.inr ⟨by simpa using h, hc.1⟩

/-- a transition that creates no stream and no call: what has to be shown about the new frames and tasks -/
theorem invQ_of {s s' : State} (h : InvQ s) (h1 : cseqs s' = cseqs s) (h2 : sseqs s' = sseqs s)
    (h3 : s'.nextSeq = s.nextSeq) (h4 : ∀ u ∈ s'.ucalls, ∃ u0 ∈ s.ucalls, u.1 = u0.1)
    (h5 : ∀ f ∈ up s', f ∈ up s ∨ (f.kind ≠ .open ∧ f.seq < s.nextSeq))
    (h6 : ∀ f ∈ dn s', f ∈ dn s ∨ f.seq < s.nextSeq)
    (h7 : ∀ t ∈ s'.cStreamQ, t ∈ s.cStreamQ ∨ t.1 < s.nextSeq)
    (h8 : ∀ t ∈ s'.sStreamQ, t ∈ s.sStreamQ ∨ t.1 < s.nextSeq) : InvQ s' := by
  refine ⟨by rw [h1]; exact h.nc, by rw [h2]; exact h.ns, by rw [h1, h2]; exact h.sc, by rw [h1, h3]; exact h.clt,
    ?_, ?_, ?_, ?_, ?_, ?_⟩
  · intro u hu
    obtain ⟨u0, hu0, he⟩ := h4 u hu
    rw [h1, h3, he]; exact h.uc u0 hu0
  · intro f hf'
    rw [h3]
    rcases h5 f hf' with hh | hh
    · exact h.fup f hh
    · exact hh.2
  · intro f hf'
    rw [h3]
    rcases h6 f hf' with hh | hh
    · exact h.fdn f hh
    · exact hh
  · intro t ht
    rw [h3]
    rcases h7 t ht with hh | hh
    · exact h.tc t hh
    · exact hh
  · intro t ht
    rw [h3]
    rcases h8 t ht with hh | hh
    · exact h.ts t hh
    · exact hh
  · intro f hf' ho
    rw [h1]
    rcases h5 f hf' with hh | hh
    · exact h.oc f hh ho
    · exact absurd ho hh.1

theorem invQ_init (cfg : Cfg) : InvQ (init cfg) :=
  ⟨List.nodup_nil, List.nodup_nil, fun _ h => (by cases h), fun _ h => (by cases h), fun _ h => (by cases h),
   fun _ h => (by cases h), fun _ h => (by cases h), fun _ h => (by cases h), fun _ h => (by cases h), fun _ h => (by cases h)⟩

theorem CPop.dn_sub {s : State} {f : Frame} {dq s2c' : List Frame} (hG : InvG s) (hp : CPop s f dq s2c') :
    ∀ f' ∈ dq ++ s2c', f' ∈ dn s := by
  intro f' h; rw [hp.dn_eq hG]; exact List.mem_cons_of_mem _ h

theorem SPop.up_sub {s : State} {f : Frame} {dq c2s' : List Frame} (hG : InvG s) (hp : SPop s f dq c2s') :
    ∀ f' ∈ dq ++ c2s', f' ∈ up s := by
  intro f' h; rw [hp.up_eq hG]; exact List.mem_cons_of_mem _ h

theorem CPop.mem_dn {s : State} {f : Frame} {dq s2c' : List Frame} (hG : InvG s) (hp : CPop s f dq s2c') : f ∈ dn s := by
  rw [hp.dn_eq hG]; exact List.mem_cons_self ..
theorem SPop.mem_up {s : State} {f : Frame} {dq c2s' : List Frame} (hG : InvG s) (hp : SPop s f dq c2s') : f ∈ up s := by
  rw [hp.up_eq hG]; exact List.mem_cons_self ..

theorem mem_up_pushC {s : State} {f f' : Frame} (h : f' ∈ s.sDecodeQ ++ pushC s f) : f' ∈ up s ∨ (f' = f ∧ s.cut = false) := by
  rcases List.mem_append.1 h with h | h
  · exact Or.inl (List.mem_append_left _ h)
  · rcases mem_pushC h with h | h
    · exact Or.inl (List.mem_append_right _ h)
    · exact Or.inr h

theorem mem_dn_pushS {s : State} {f f' : Frame} (h : f' ∈ s.cDecodeQ ++ pushS s f) : f' ∈ dn s ∨ (f' = f ∧ s.cut = false) := by
  rcases List.mem_append.1 h with h | h
  · exact Or.inl (List.mem_append_left _ h)
  · rcases mem_pushS h with h | h
    · exact Or.inl (List.mem_append_right _ h)
    · exact Or.inr h

theorem invQ_tr (hf : allFlags = true) {s s' : State} (hG : InvG s) (h : InvQ s) (t : Tr s s') : InvQ s' := by
  have idu : ∀ u ∈ s.ucalls, ∃ u0 ∈ s.ucalls, u.1 = u0.1 := fun u hu => ⟨u, hu, rfl⟩
  have getC_lt : ∀ {q c}, getC s q = some c → q < s.nextSeq := fun hc => by
    have := h.clt _ (mem_cseqs (getC_some hc).1); rwa [(getC_some hc).2] at this
  cases t
  case cOpen hsh =>
    have hnew : ∀ q ∈ cseqs s, q ≠ s.nextSeq := fun q hq he => by have := h.clt q hq; omega
    have hcs : ∀ q, q ∈ cseqs s ++ [s.nextSeq] ↔ q ∈ cseqs s ∨ q = s.nextSeq := by
      intro q; simp
    refine ⟨?_, h.ns, ?_, ?_, ?_, ?_, ?_, ?_, ?_, ?_⟩
    · show (List.map _ (s.cs ++ [_])).Nodup
      rw [List.map_append, List.nodup_append]
      refine ⟨h.nc, by simp, ?_⟩
      intro a ha b hb
      simp only [List.map_cons, List.map_nil, List.mem_singleton] at hb
      subst hb
      exact hnew a ha
    · intro q hq
      show q ∈ List.map _ (s.cs ++ [_])
      rw [List.map_append]
      exact List.mem_append_left _ (h.sc q hq)
    · intro q hq
      have hq' : q ∈ List.map (·.seq) (s.cs ++ [{ seq := s.nextSeq }]) := hq
      rw [List.map_append] at hq'
      show q < s.nextSeq + 1
      rcases List.mem_append.1 hq' with hq' | hq'
      · have := h.clt q hq'; omega
      · simp at hq'; omega
    · intro u hu
      obtain ⟨u1, u2⟩ := h.uc u hu
      refine ⟨by show u.1 < s.nextSeq + 1; omega, ?_⟩
      show u.1 ∉ List.map _ (s.cs ++ [_])
      rw [List.map_append]
      intro hm
      rcases List.mem_append.1 hm with hm | hm
      · exact u2 hm
      · simp at hm; omega
    · intro f hf'
      show f.seq < s.nextSeq + 1
      rcases mem_up_pushC (s := s) hf' with hh | hh
      · have := h.fup f hh; omega
      · rw [hh.1]; show s.nextSeq < s.nextSeq + 1; omega
    · intro f hf'
      have := h.fdn f hf'
      show f.seq < s.nextSeq + 1; omega
    · intro t ht
      have := h.tc t ht
      show t.1 < s.nextSeq + 1; omega
    · intro t ht
      have := h.ts t ht
      show t.1 < s.nextSeq + 1; omega
    · intro f hf' ho
      show f.seq ∈ List.map _ (s.cs ++ [_])
      rw [List.map_append]
      rcases mem_up_pushC (s := s) hf' with hh | hh
      · exact List.mem_append_left _ (h.oc f hh ho)
      · rw [hh.1]; simp
  case cCall hsh =>
    refine ⟨h.nc, h.ns, h.sc, ?_, ?_, ?_, ?_, ?_, ?_, ?_⟩
    · intro q hq
      have := h.clt q hq
      show q < s.nextSeq + 1; omega
    · intro u hu
      rcases List.mem_append.1 hu with hu | hu
      · obtain ⟨u1, u2⟩ := h.uc u hu
        exact ⟨by show u.1 < s.nextSeq + 1; omega, u2⟩
      · simp only [List.mem_singleton] at hu
        subst hu
        refine ⟨by show s.nextSeq < s.nextSeq + 1; omega, fun hm => ?_⟩
        have := h.clt _ hm
        simp at this
    · intro f hf'
      show f.seq < s.nextSeq + 1
      rcases mem_up_pushC (s := s) hf' with hh | hh
      · have := h.fup f hh; omega
      · rw [hh.1]; show s.nextSeq < s.nextSeq + 1; omega
    · intro f hf'
      have := h.fdn f hf'
      show f.seq < s.nextSeq + 1; omega
    · intro t ht
      have := h.tc t ht
      show t.1 < s.nextSeq + 1; omega
    · intro t ht
      have := h.ts t ht
      show t.1 < s.nextSeq + 1; omega
    · intro f hf' ho
      rcases mem_up_pushC (s := s) hf' with hh | hh
      · exact h.oc f hh ho
      · rw [hh.1] at ho; cases ho
  case spOpen q dq c2s' hp hn =>
    have hq : q ∈ cseqs s := h.oc _ (hp.mem_up hG) rfl
    refine ⟨h.nc, ?_, ?_, h.clt, h.uc, fun f hf' => h.fup f (hp.up_sub hG f hf'), ?_, h.tc, h.ts,
      fun f hf' => h.oc f (hp.up_sub hG f hf')⟩
    · show (List.map _ (s.ss ++ [_])).Nodup
      rw [List.map_append, List.nodup_append]
      refine ⟨h.ns, by simp, ?_⟩
      intro a ha b hb
      simp only [List.map_cons, List.map_nil, List.mem_singleton] at hb
      subst hb
      obtain ⟨t, ht, rfl⟩ := of_mem_sseqs ha
      exact getS_none hn t ht
    · intro q' hq'
      have hq'' : q' ∈ List.map (·.seq) (s.ss ++ [{ seq := q, acked := true, started := true }]) := hq'
      rw [List.map_append] at hq''
      rcases List.mem_append.1 hq'' with hh | hh
      · exact h.sc q' hh
      · simp at hh; rw [hh]; exact hq
    · intro f hf'
      rcases mem_dn_pushS (s := s) hf' with hh | hh
      · exact h.fdn f hh
      · rw [hh.1]; have := h.fup _ (hp.mem_up hG); exact this
  case cWriteErr q c hc ho hcl =>
    exact invQ_of h (updC_seqs (by intro; rfl) _) rfl rfl idu (fun f hf' => Or.inl hf') (fun f hf' => Or.inl hf')
      (fun t ht => Or.inl ht) (fun t ht => Or.inl ht)
  case cWriteOk q m c hc ho hcl hsh =>
    refine invQ_of h (updC_seqs (by intro; rfl) _) rfl rfl idu ?_ (fun f hf' => Or.inl hf')
      (fun t ht => Or.inl ht) (fun t ht => Or.inl ht)
    intro f hf'
    rcases mem_up_pushC (s := s) hf' with hh | hh
    · exact Or.inl hh
    · rw [hh.1]; exact Or.inr ⟨fun h => (by cases h), getC_lt hc⟩
  case cRead q c e' hc ho hr =>
    exact invQ_of h (updC_seqs (by intro; rfl) _) rfl rfl idu (fun f hf' => Or.inl hf') (fun f hf' => Or.inl hf')
      (fun t ht => Or.inl ht) (fun t ht => Or.inl ht)
  case cCloseShut q c hc ho hsh =>
    exact invQ_of h (updC_seqs (by intro; rfl) _) rfl rfl idu (fun f hf' => Or.inl hf') (fun f hf' => Or.inl hf')
      (fun t ht => Or.inl ht) (fun t ht => Or.inl ht)
  case cCloseSend q c hc ho hsh =>
    refine invQ_of h (updC_seqs (by intro; rfl) _) rfl rfl idu ?_ (fun f hf' => Or.inl hf')
      (fun t ht => Or.inl ht) (fun t ht => Or.inl ht)
    intro f hf'
    rcases mem_up_pushC (s := s) hf' with hh | hh
    · exact Or.inl hh
    · rw [hh.1]; exact Or.inr ⟨fun h => (by cases h), getC_lt hc⟩
  case cRecvQ f rest hsh hl hd =>
    refine invQ_of h rfl rfl rfl idu (fun f hf' => Or.inl hf') ?_ (fun t ht => Or.inl ht) (fun t ht => Or.inl ht)
    intro f' hf'
    left
    have : dn s = (s.cDecodeQ ++ [f]) ++ rest := by unfold dn; rw [hl]; simp
    rw [this]; exact hf'
  case cpSkip f dq s2c' hp _ =>
    exact invQ_of h rfl rfl rfl idu (fun f hf' => Or.inl hf') (fun f hf' => Or.inl (hp.dn_sub hG f hf'))
      (fun t ht => Or.inl ht) (fun t ht => Or.inl ht)
  case cpCloseDone f dq s2c' c hp hsh hc hpe =>
    exact invQ_of h (updC_seqs (by intro; rfl) _) rfl rfl idu (fun f hf' => Or.inl hf')
      (fun f hf' => Or.inl (hp.dn_sub hG f hf')) (fun t ht => Or.inl ht) (fun t ht => Or.inl ht)
  case cpOpened f dq s2c' c hp hsh hc hpe hph =>
    exact invQ_of h (updC_seqs (by intro; rfl) _) rfl rfl idu (fun f hf' => Or.inl hf')
      (fun f hf' => Or.inl (hp.dn_sub hG f hf')) (fun t ht => Or.inl ht) (fun t ht => Or.inl ht)
  case cpMsgD f dq s2c' c hp hsh hc hpe hph hd =>
    exact invQ_of h (updC_seqs (trigC_seq _) _) rfl rfl idu (fun f hf' => Or.inl hf')
      (fun f hf' => Or.inl (hp.dn_sub hG f hf')) (fun t ht => Or.inl ht) (fun t ht => Or.inl ht)
  case cpMsgQ f dq s2c' c hp hsh hc hpe hph hd =>
    refine invQ_of h rfl rfl rfl idu (fun f hf' => Or.inl hf')
      (fun f hf' => Or.inl (hp.dn_sub hG f hf')) ?_ (fun t ht => Or.inl ht)
    intro t ht
    rcases List.mem_append.1 ht with ht | ht
    · exact Or.inl ht
    · simp only [List.mem_singleton] at ht
      subst ht
      exact Or.inr (h.fdn f (hp.mem_dn hG))
  case cpUnary f dq s2c' hp hsh hc =>
    refine invQ_of h rfl rfl rfl ?_ (fun f hf' => Or.inl hf')
      (fun f hf' => Or.inl (hp.dn_sub hG f hf')) (fun t ht => Or.inl ht) (fun t ht => Or.inl ht)
    intro u hu
    obtain ⟨u0, hu0, rfl⟩ := List.mem_map.1 hu
    refine ⟨u0, hu0, ?_⟩
    split <;> rfl
  case cStreamRun t rest hl =>
    exact invQ_of h (updC_seqs (trigC_seq _) _) rfl rfl idu (fun f hf' => Or.inl hf')
      (fun f hf' => Or.inl hf') (fun t' ht' => Or.inl (by rw [hl]; exact List.mem_cons_of_mem _ ht'))
      (fun t ht => Or.inl ht)
  case cSweep hsh hcut h1 h2 =>
    refine invQ_of h ?_ rfl rfl ?_ (fun f hf' => Or.inl hf') (fun f hf' => Or.inl hf')
      (fun t ht => Or.inl ht) (fun t ht => Or.inl ht)
    · show List.map _ (List.map sweepC s.cs) = _
      rw [List.map_map]
      apply List.map_congr_left
      intro c _
      exact (sweepC_fields hf c).1
    · intro u hu
      obtain ⟨u0, hu0, rfl⟩ := List.mem_map.1 hu
      exact ⟨u0, hu0, rfl⟩
  case sRecvQ f rest he hl hd =>
    refine invQ_of h rfl rfl rfl idu ?_ (fun f hf' => Or.inl hf') (fun t ht => Or.inl ht) (fun t ht => Or.inl ht)
    intro f' hf'
    left
    have : up s = (s.sDecodeQ ++ [f]) ++ rest := by unfold up; rw [hl]; simp
    rw [this]; exact hf'
  case spClose q dq c2s' hp =>
    refine invQ_of h rfl (updS_seqs (by intro t; split <;> rfl) _) rfl idu (fun f hf' => Or.inl (hp.up_sub hG f hf')) ?_
      (fun t ht => Or.inl ht) (fun t ht => Or.inl ht)
    intro f hf'
    rcases mem_dn_pushS (s := s) hf' with hh | hh
    · exact Or.inl hh
    · rw [hh.1]; have := h.fup _ (hp.mem_up hG); exact Or.inr this
  case spSkip f dq c2s' hp _ =>
    exact invQ_of h rfl rfl rfl idu (fun f hf' => Or.inl (hp.up_sub hG f hf')) (fun f hf' => Or.inl hf')
      (fun t ht => Or.inl ht) (fun t ht => Or.inl ht)
  case spMsgD q m dq c2s' t hp ht hin hd =>
    exact invQ_of h rfl (updS_seqs (by intro; rfl) _) rfl idu (fun f hf' => Or.inl (hp.up_sub hG f hf'))
      (fun f hf' => Or.inl hf') (fun t ht => Or.inl ht) (fun t ht => Or.inl ht)
  case spMsgQ q m dq c2s' t hp ht hin hd =>
    refine invQ_of h rfl rfl rfl idu (fun f hf' => Or.inl (hp.up_sub hG f hf'))
      (fun f hf' => Or.inl hf') (fun t ht => Or.inl ht) ?_
    intro t' ht'
    rcases List.mem_append.1 ht' with ht' | ht'
    · exact Or.inl ht'
    · simp only [List.mem_singleton] at ht'
      subst ht'
      exact Or.inr (h.fup _ (hp.mem_up hG))
  case spOther q dq c2s' hp =>
    refine invQ_of h rfl rfl rfl idu (fun f hf' => Or.inl (hp.up_sub hG f hf')) ?_
      (fun t ht => Or.inl ht) (fun t ht => Or.inl ht)
    intro f hf'
    rcases mem_dn_pushS (s := s) hf' with hh | hh
    · exact Or.inl hh
    · rw [hh.1]; have := h.fup _ (hp.mem_up hG); exact Or.inr this
  case sStreamRun t rest hl =>
    exact invQ_of h rfl (updS_seqs (by intro; rfl) _) rfl idu (fun f hf' => Or.inl hf')
      (fun f hf' => Or.inl hf') (fun t ht => Or.inl ht)
      (fun t' ht' => Or.inl (by rw [hl]; exact List.mem_cons_of_mem _ ht'))
  case sEnd =>
    exact invQ_of h rfl rfl rfl idu (fun f hf' => Or.inl hf') (fun f hf' => Or.inl hf')
      (fun t ht => Or.inl ht) (fun t ht => Or.inl ht)
  case sFinal he hc hd hq =>
    refine invQ_of h rfl ?_ rfl idu (fun f hf' => Or.inl hf') (fun f hf' => Or.inl hf')
      (fun t ht => Or.inl ht) (fun t ht => Or.inl ht)
    show List.map _ (List.map _ s.ss) = _
    rw [List.map_map]
    apply List.map_congr_left
    intro c _
    simp only [Function.comp]
    split <;> rfl
  case sWriteErr q t ht =>
    exact invQ_of h rfl (updS_seqs (by intro; rfl) _) rfl idu (fun f hf' => Or.inl hf') (fun f hf' => Or.inl hf')
      (fun t ht => Or.inl ht) (fun t ht => Or.inl ht)
  case sWriteOk q m t ht _ _ _ =>
    refine invQ_of h rfl (updS_seqs (by intro; rfl) _) rfl idu (fun f hf' => Or.inl hf') ?_
      (fun t ht => Or.inl ht) (fun t ht => Or.inl ht)
    intro f hf'
    rcases mem_dn_pushS (s := s) hf' with hh | hh
    · exact Or.inl hh
    · rw [hh.1]
      right
      have := h.clt _ (h.sc _ (mem_sseqs (getS_some ht).1))
      rwa [(getS_some ht).2] at this
  case sRead q t e' ht hr =>
    exact invQ_of h rfl (updS_seqs (by intro; rfl) _) rfl idu (fun f hf' => Or.inl hf') (fun f hf' => Or.inl hf')
      (fun t ht => Or.inl ht) (fun t ht => Or.inl ht)
  case sExit q t ht =>
    exact invQ_of h rfl (updS_seqs (by intro; rfl) _) rfl idu (fun f hf' => Or.inl hf') (fun f hf' => Or.inl hf')
      (fun t ht => Or.inl ht) (fun t ht => Or.inl ht)
  case cutLink kc ks hc =>
    refine invQ_of h rfl rfl rfl idu ?_ ?_ (fun t ht => Or.inl ht) (fun t ht => Or.inl ht)
    · intro f hf'
      left
      rcases List.mem_append.1 hf' with hh | hh
      · exact List.mem_append_left _ hh
      · exact List.mem_append_right _ (List.mem_of_mem_take hh)
    · intro f hf'
      left
      rcases List.mem_append.1 hf' with hh | hh
      · exact List.mem_append_left _ hh
      · exact List.mem_append_right _ (List.mem_of_mem_take hh)

end RpcVerif.T
