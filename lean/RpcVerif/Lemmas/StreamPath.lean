import RpcVerif.Lemmas.StreamAux
/-
  T (the stream layer of one connection), part 3: the frames in flight. Which frames can be on
  the two paths (`up`: client → server, `dn`: server → client), and how the stream messages among
  them relate to what was written and what was delivered.
-/
namespace RpcVerif.T
open RpcVerif

/-! ### the frames of one sequence number -/

/-- the kinds of the frames for sequence number q, oldest first -/
def kindsOf (q : Nat) (fs : List Frame) : List FKind :=
  fs.filterMap fun f => if f.seq == q then some f.kind else none

def FKind.isMsg : FKind → Bool
  | .msg _ => true
  | _ => false

/-- the stream messages among a list of kinds -/
def valsOf (ks : List FKind) : List Nat :=
  ks.filterMap fun k => match k with | .msg m => some m | _ => none

theorem filterMap_ext {α β : Type} {f g : α → Option β} (h : ∀ a, f a = g a) (l : List α) : l.filterMap f = l.filterMap g := by
  have : f = g := funext h
  rw [this]

theorem msgsOf_eq (q : Nat) (fs : List Frame) : msgsOf q fs = valsOf (kindsOf q fs) := by
  unfold msgsOf valsOf kindsOf
  rw [List.filterMap_filterMap]
  apply filterMap_ext
  intro f
  by_cases hq : (f.seq == q) = true
  · simp only [hq, ↓reduceIte, Option.bind_some]
    cases f.kind <;> rfl
  · simp only [hq, Bool.false_eq_true, ↓reduceIte, Option.bind_none]

theorem kindsOf_nil (q : Nat) : kindsOf q [] = [] := rfl
theorem kindsOf_append (q : Nat) (a b : List Frame) : kindsOf q (a ++ b) = kindsOf q a ++ kindsOf q b := by
  unfold kindsOf; exact List.filterMap_append
theorem kindsOf_cons_ne {q : Nat} {f : Frame} (l : List Frame) (h : f.seq ≠ q) : kindsOf q (f :: l) = kindsOf q l := by
  unfold kindsOf
  simp only [List.filterMap_cons, beq_iff_eq, h, ↓reduceIte]
theorem kindsOf_cons_eq {q : Nat} {f : Frame} (l : List Frame) (h : f.seq = q) : kindsOf q (f :: l) = f.kind :: kindsOf q l := by
  unfold kindsOf
  simp only [List.filterMap_cons, beq_iff_eq, h, ↓reduceIte]
theorem kindsOf_single_ne {q : Nat} {f : Frame} (h : f.seq ≠ q) : kindsOf q [f] = [] := kindsOf_cons_ne [] h
theorem kindsOf_single_eq {q : Nat} {f : Frame} (h : f.seq = q) : kindsOf q [f] = [f.kind] := kindsOf_cons_eq [] h
theorem mem_kindsOf {q : Nat} {fs : List Frame} {k : FKind} : k ∈ kindsOf q fs ↔ ∃ f ∈ fs, f.seq = q ∧ f.kind = k := by
  unfold kindsOf
  rw [List.mem_filterMap]
  constructor
  · rintro ⟨f, hf, he⟩
    split at he
    · rename_i hq
      exact ⟨f, hf, by simpa using hq, by simpa using he⟩
    · cases he
  · rintro ⟨f, hf, hq, hk⟩
    exact ⟨f, hf, by simp [hq, hk]⟩
theorem kindsOf_eq_nil {q : Nat} {fs : List Frame} : kindsOf q fs = [] ↔ ∀ f ∈ fs, f.seq ≠ q := by
  constructor
  · intro h f hf hq
    have : f.kind ∈ kindsOf q fs := mem_kindsOf.2 ⟨f, hf, hq, rfl⟩
    rw [h] at this; cases this
  · intro h
    apply List.eq_nil_iff_forall_not_mem.2
    intro k hk
    obtain ⟨f, hf, hq, _⟩ := mem_kindsOf.1 hk
    exact h f hf hq
theorem kindsOf_prefix (q : Nat) {a b : List Frame} (h : a <+: b) : kindsOf q a <+: kindsOf q b := by
  unfold kindsOf; exact List.IsPrefix.filterMap _ h
theorem kindsOf_sublist (q : Nat) {a b : List Frame} (h : a.Sublist b) : (kindsOf q a).Sublist (kindsOf q b) := by
  unfold kindsOf; exact List.Sublist.filterMap _ h

theorem valsOf_append (a b : List FKind) : valsOf (a ++ b) = valsOf a ++ valsOf b := by
  unfold valsOf; exact List.filterMap_append
theorem valsOf_cons_msg (m : Nat) (l : List FKind) : valsOf (.msg m :: l) = m :: valsOf l := rfl
theorem valsOf_cons_ack (l : List FKind) : valsOf (.ack :: l) = valsOf l := rfl
theorem valsOf_prefix {a b : List FKind} (h : a <+: b) : valsOf a <+: valsOf b := by
  unfold valsOf; exact List.IsPrefix.filterMap _ h
theorem isMsg_iff {k : FKind} : k.isMsg = true ↔ ∃ m, k = .msg m := by
  cases k <;> simp [FKind.isMsg]
theorem value_msg (m : Nat) : (FKind.msg m).value = m := rfl

theorem tasksOf_append (q : Nat) (a b : List (Nat × Nat)) : tasksOf q (a ++ b) = tasksOf q a ++ tasksOf q b := by
  unfold tasksOf; exact List.filterMap_append
theorem tasksOf_cons_ne {q : Nat} {t : Nat × Nat} (l : List (Nat × Nat)) (h : t.1 ≠ q) : tasksOf q (t :: l) = tasksOf q l := by
  unfold tasksOf
  simp only [List.filterMap_cons, beq_iff_eq, h, ↓reduceIte]
theorem tasksOf_cons_eq {q : Nat} {t : Nat × Nat} (l : List (Nat × Nat)) (h : t.1 = q) : tasksOf q (t :: l) = t.2 :: tasksOf q l := by
  unfold tasksOf
  simp only [List.filterMap_cons, beq_iff_eq, h, ↓reduceIte]
theorem tasksOf_eq_nil {q : Nat} {ts : List (Nat × Nat)} (h : ∀ t ∈ ts, t.1 ≠ q) : tasksOf q ts = [] := by
  unfold tasksOf
  apply List.eq_nil_iff_forall_not_mem.2
  intro v hv
  rw [List.mem_filterMap] at hv
  obtain ⟨t, ht, he⟩ := hv
  split at he
  · rename_i hq; exact h t ht (by simpa using hq)
  · cases he
theorem tasksOf_snoc_ne {q : Nat} {t : Nat × Nat} (l : List (Nat × Nat)) (h : t.1 ≠ q) : tasksOf q (l ++ [t]) = tasksOf q l := by
  rw [tasksOf_append, tasksOf_cons_ne [] h]; exact List.append_nil _
theorem tasksOf_snoc_eq {q : Nat} {t : Nat × Nat} (l : List (Nat × Nat)) (h : t.1 = q) : tasksOf q (l ++ [t]) = tasksOf q l ++ [t.2] := by
  rw [tasksOf_append, tasksOf_cons_eq [] h]; rfl

theorem kindsOf_snoc_ne {q : Nat} {f : Frame} (l : List Frame) (h : f.seq ≠ q) : kindsOf q (l ++ [f]) = kindsOf q l := by
  rw [kindsOf_append, kindsOf_single_ne h]; exact List.append_nil _
theorem kindsOf_snoc_eq {q : Nat} {f : Frame} (l : List Frame) (h : f.seq = q) : kindsOf q (l ++ [f]) = kindsOf q l ++ [f.kind] := by
  rw [kindsOf_append, kindsOf_single_eq h]

/-- what a send appends to a path -/
def sentC (s : State) (f : Frame) : List Frame := if s.cut then [] else [f]
def sentS (s : State) (f : Frame) : List Frame := if s.cut || s.sTornDown then [] else [f]

theorem pushC_eq (s : State) (f : Frame) : pushC s f = s.c2s ++ sentC s f := by
  unfold pushC sentC; split <;> simp
theorem pushS_eq (s : State) (f : Frame) : pushS s f = s.s2c ++ sentS s f := by
  unfold pushS sentS; split <;> simp
theorem sentC_cases (s : State) (f : Frame) : (s.cut = true ∧ sentC s f = []) ∨ (s.cut = false ∧ sentC s f = [f]) := by
  unfold sentC
  rcases Bool.eq_false_or_eq_true s.cut with h | h <;> simp [h]
theorem sentS_cases (s : State) (f : Frame) (ht : s.sTornDown = false) :
    (s.cut = true ∧ sentS s f = []) ∨ (s.cut = false ∧ sentS s f = [f]) := by
  unfold sentS
  rcases Bool.eq_false_or_eq_true s.cut with h | h <;> simp [h, ht]
theorem up_push (s : State) (f : Frame) : s.sDecodeQ ++ pushC s f = up s ++ sentC s f := by
  rw [pushC_eq, List.append_assoc]
theorem dn_push (s : State) (f : Frame) : s.cDecodeQ ++ pushS s f = dn s ++ sentS s f := by
  rw [pushS_eq, List.append_assoc]


/-! ### O: which frames can be on the way to the server -/

structure InvO (s : State) : Prop where
  /-- an open request on its way belongs to a stream the server does not know yet -/
  fresh : ∀ f ∈ up s, f.kind = .open → f.seq ∉ sseqs s
  /-- an open request is the first frame of its sequence number -/
  first : (up s).Pairwise (fun f g => g.kind = .open → f.seq ≠ g.seq)
  /-- a close request on its way: the client's opening call is no longer registered -/
  closeP : ∀ f ∈ up s, f.kind = .close → ∀ c ∈ s.cs, c.seq = f.seq → c.pend ≠ .openCall
  /-- a unary request does not carry the sequence number of a stream -/
  otherP : ∀ f ∈ up s, f.kind = .other → f.seq ∉ cseqs s

theorem pairwise_small {α : Type} {R : α → α → Prop} {l : List α} (h : l.length ≤ 1) : l.Pairwise R := by
  match l, h with
  | [], _ => exact List.Pairwise.nil
  | [a], _ => exact List.pairwise_singleton R a

theorem invO_gen {s s' : State} (hQ : InvQ s) (h : InvO s) (l fs : List Frame) (hl : l.Sublist (up s))
    (hup : up s' = l ++ fs) (hfs1 : fs.length ≤ 1)
    (hfs : ∀ f ∈ fs, (f.kind = .open → f.seq ∉ sseqs s' ∧ ∀ a ∈ up s, a.seq ≠ f.seq) ∧
      (f.kind = .close → ∀ c' ∈ s'.cs, c'.seq = f.seq → c'.pend ≠ .openCall) ∧ (f.kind = .other → f.seq ∉ cseqs s'))
    (hss : ∀ q ∈ sseqs s', q ∈ sseqs s ∨ ∀ g ∈ l, g.kind = .open → g.seq ≠ q)
    (hcs : ∀ q ∈ cseqs s', q ∈ cseqs s ∨ s.nextSeq ≤ q)
    (hpend : ∀ c' ∈ s'.cs, c'.pend = .openCall → (∃ c ∈ s.cs, c.seq = c'.seq ∧ c.pend = .openCall) ∨ s.nextSeq ≤ c'.seq) :
    InvO s' := by
  have hsub : ∀ f ∈ l, f ∈ up s := fun f hf' => hl.subset hf'
  refine ⟨?_, ?_, ?_, ?_⟩
  · intro f hf' ho
    rw [hup] at hf'
    rcases List.mem_append.1 hf' with hm | hm
    · intro hq
      rcases hss _ hq with hh | hh
      · exact h.fresh f (hsub f hm) ho hh
      · exact hh f hm ho rfl
    · exact ((hfs f hm).1 ho).1
  · rw [hup, List.pairwise_append]
    refine ⟨List.Pairwise.sublist hl h.first, pairwise_small hfs1, ?_⟩
    intro a ha b hb ho
    exact ((hfs b hb).1 ho).2 a (hsub a ha)
  · intro f hf' hk c' hc' hq hp
    rw [hup] at hf'
    rcases List.mem_append.1 hf' with hm | hm
    · rcases hpend c' hc' hp with ⟨c, hc, hcq, hcp⟩ | hh
      · exact h.closeP f (hsub f hm) hk c hc (hcq.trans hq) hcp
      · have := hQ.fup f (hsub f hm); omega
    · exact (hfs f hm).2.1 hk c' hc' hq hp
  · intro f hf' hk hq
    rw [hup] at hf'
    rcases List.mem_append.1 hf' with hm | hm
    · rcases hcs _ hq with hh | hh
      · exact h.otherP f (hsub f hm) hk hh
      · have := hQ.fup f (hsub f hm); omega
    · exact (hfs f hm).2.2 hk hq

theorem pend_updC {q : Nat} {g : CStream → CStream} {cs : List CStream}
    (hg : ∀ c, (g c).seq = c.seq ∧ ((g c).pend = .openCall → c.pend = .openCall)) :
    ∀ c' ∈ updC q g cs, c'.pend = .openCall → ∃ c ∈ cs, c.seq = c'.seq ∧ c.pend = .openCall := by
  intro c' hc' hp
  rcases mem_updC hc' with ⟨h1, _⟩ | ⟨c, hc, _, rfl⟩
  · exact ⟨c', h1, rfl, hp⟩
  · exact ⟨c, hc, (hg c).1.symm, (hg c).2 hp⟩

theorem cseqs_updC (s : State) (q : Nat) (g : CStream → CStream) (hg : ∀ c, (g c).seq = c.seq) (x : Nat)
    (hx : x ∈ (updC q g s.cs).map (·.seq)) : x ∈ cseqs s := by
  rw [updC_seqs hg] at hx; exact hx

theorem invO_init (cfg : Cfg) : InvO (init cfg) :=
  ⟨fun _ h => (by cases h), List.Pairwise.nil, fun _ h => (by cases h), fun _ h => (by cases h)⟩

/-- transitions that send nothing to the server, create no stream and re-register no opening call -/
theorem invO_sub {s s' : State} (hQ : InvQ s) (h : InvO s) (hl : (up s').Sublist (up s))
    (hss : sseqs s' = sseqs s) (hcs : cseqs s' = cseqs s)
    (hpend : ∀ c' ∈ s'.cs, c'.pend = .openCall → ∃ c ∈ s.cs, c.seq = c'.seq ∧ c.pend = .openCall) : InvO s' :=
  invO_gen hQ h (up s') [] hl (List.append_nil _).symm (Nat.zero_le _) (fun _ hf' => (by cases hf'))
    (fun q hq => Or.inl (hss ▸ hq)) (fun q hq => Or.inl (hcs ▸ hq)) (fun c' hc' hp => Or.inl (hpend c' hc' hp))

theorem idpend (s : State) : ∀ c' ∈ s.cs, c'.pend = .openCall → ∃ c ∈ s.cs, c.seq = c'.seq ∧ c.pend = .openCall :=
  fun c' hc' hp => ⟨c', hc', rfl, hp⟩

theorem SPop.sublist {s : State} {f : Frame} {dq c2s' : List Frame} (hG : InvG s) (hp : SPop s f dq c2s') :
    (dq ++ c2s').Sublist (up s) := by
  rw [hp.up_eq hG]; exact List.sublist_cons_self _ _
theorem CPop.sublist {s : State} {f : Frame} {dq s2c' : List Frame} (hG : InvG s) (hp : CPop s f dq s2c') :
    (dq ++ s2c').Sublist (dn s) := by
  rw [hp.dn_eq hG]; exact List.sublist_cons_self _ _

theorem sentC_len (s : State) (f : Frame) : (sentC s f).length ≤ 1 := by
  unfold sentC; split <;> simp
theorem mem_sentC {s : State} {f f' : Frame} (h : f' ∈ sentC s f) : f' = f := by
  unfold sentC at h; split at h
  · cases h
  · simpa using h

theorem invO_tr (hf : allFlags = true) {s s' : State} (hG : InvG s) (hQ : InvQ s) (h : InvO s) (t : Tr s s') : InvO s' := by
  have getC_lt : ∀ {q c}, getC s q = some c → q < s.nextSeq := fun hc => by
    have := hQ.clt _ (mem_cseqs (getC_some hc).1); rwa [(getC_some hc).2] at this
  cases t
  case cOpen hsh =>
    refine invO_gen hQ h (up s) (sentC s ⟨s.nextSeq, .open⟩) (List.Sublist.refl _) (up_push s _) (sentC_len _ _) ?_
      (fun q hq => Or.inl hq) ?_ ?_
    · intro f hf'
      rw [mem_sentC hf']
      refine ⟨fun _ => ⟨fun hq => ?_, fun a ha he => ?_⟩, fun hk => (by cases hk), fun hk => (by cases hk)⟩
      · have := hQ.clt _ (hQ.sc _ hq); simp at this
      · have := hQ.fup a ha; simp at he; omega
    · intro q hq
      have hq' : q ∈ List.map (·.seq) (s.cs ++ [{ seq := s.nextSeq }]) := hq
      rw [List.map_append] at hq'
      rcases List.mem_append.1 hq' with hq' | hq'
      · exact Or.inl hq'
      · simp at hq'; exact Or.inr (by omega)
    · intro c' hc' hp
      rcases List.mem_append.1 hc' with hc' | hc'
      · exact Or.inl ⟨c', hc', rfl, hp⟩
      · simp at hc'; subst hc'; exact Or.inr (Nat.le_refl _)
  case cCall hsh =>
    refine invO_gen hQ h (up s) (sentC s ⟨s.nextSeq, .other⟩) (List.Sublist.refl _) (up_push s _) (sentC_len _ _) ?_
      (fun q hq => Or.inl hq) (fun q hq => Or.inl hq) (fun c' hc' hp => Or.inl ⟨c', hc', rfl, hp⟩)
    intro f hf'
    rw [mem_sentC hf']
    refine ⟨fun hk => (by cases hk), fun hk => (by cases hk), fun _ hq => ?_⟩
    have := hQ.clt _ hq; simp at this
  case cWriteOk q m c hc ho hcl hsh =>
    refine invO_gen hQ h (up s) (sentC s ⟨q, .msg m⟩) (List.Sublist.refl _) (up_push s _) (sentC_len _ _) ?_
      (fun q hq => Or.inl hq) (fun x hx => Or.inl (cseqs_updC s _ _ (by intro; rfl) x hx))
      (fun c' hc' hp => Or.inl (pend_updC (by intro c; exact ⟨rfl, id⟩) c' hc' hp))
    intro f hf'
    rw [mem_sentC hf']
    exact ⟨fun hk => (by cases hk), fun hk => (by cases hk), fun hk => (by cases hk)⟩
  case cCloseSend q c hc ho hsh =>
    refine invO_gen hQ h (up s) (sentC s ⟨q, .close⟩) (List.Sublist.refl _) (up_push s _) (sentC_len _ _) ?_
      (fun q hq => Or.inl hq) (fun x hx => Or.inl (cseqs_updC s _ _ (by intro; rfl) x hx))
      (fun c' hc' hp => Or.inl (pend_updC (by intro c; exact ⟨rfl, fun hh => (by cases hh)⟩) c' hc' hp))
    intro f hf'
    rw [mem_sentC hf']
    refine ⟨fun hk => (by cases hk), fun _ c' hc' hq hp => ?_, fun hk => (by cases hk)⟩
    rcases mem_updC hc' with ⟨_, h2⟩ | ⟨c0, _, _, rfl⟩
    · exact h2 hq
    · cases hp
  case spOpen q dq c2s' hp hn =>
    have hup := hp.up_eq hG
    have hfirst := h.first
    rw [hup, List.pairwise_cons] at hfirst
    refine invO_gen hQ h (dq ++ c2s') [] (hp.sublist hG) (List.append_nil _).symm (Nat.zero_le _)
      (fun _ hf' => (by cases hf')) ?_ (fun q hq => Or.inl hq) (fun c' hc' hp => Or.inl ⟨c', hc', rfl, hp⟩)
    intro q' hq'
    have hq'' : q' ∈ List.map (·.seq) (s.ss ++ [{ seq := q, acked := true, started := true }]) := hq'
    rw [List.map_append] at hq''
    rcases List.mem_append.1 hq'' with hh | hh
    · exact Or.inl hh
    · simp at hh; subst hh
      exact Or.inr fun g hg ho he => hfirst.1 g hg ho he.symm
  case cWriteErr q c hc ho hcl =>
    exact invO_sub hQ h (List.Sublist.refl _) rfl (updC_seqs (by intro; rfl) _) (pend_updC (by intro c; exact ⟨rfl, id⟩))
  case cRead q c e' hc ho hr =>
    exact invO_sub hQ h (List.Sublist.refl _) rfl (updC_seqs (by intro; rfl) _) (pend_updC (by intro c; exact ⟨rfl, id⟩))
  case cCloseShut q c hc ho hsh =>
    exact invO_sub hQ h (List.Sublist.refl _) rfl (updC_seqs (by intro; rfl) _) (pend_updC (by intro c; exact ⟨rfl, id⟩))
  case cRecvQ f rest hsh hl hd => exact invO_sub hQ h (List.Sublist.refl _) rfl rfl (idpend s)
  case cpSkip f dq s2c' hp _ => exact invO_sub hQ h (List.Sublist.refl _) rfl rfl (idpend s)
  case cpCloseDone f dq s2c' c hp hsh hc hpe =>
    exact invO_sub hQ h (List.Sublist.refl _) rfl (updC_seqs (by intro; rfl) _)
      (pend_updC (by intro c; exact ⟨rfl, fun hh => (by cases hh)⟩))
  case cpOpened f dq s2c' c hp hsh hc hpe hph =>
    exact invO_sub hQ h (List.Sublist.refl _) rfl (updC_seqs (by intro; rfl) _) (pend_updC (by intro c; exact ⟨rfl, id⟩))
  case cpMsgD f dq s2c' c hp hsh hc hpe hph hd =>
    refine invO_sub hQ h (List.Sublist.refl _) rfl (updC_seqs (trigC_seq _) _) (pend_updC (fun c => ⟨trigC_seq _ c, ?_⟩))
    unfold trigC; split <;> exact id
  case cpMsgQ f dq s2c' c hp hsh hc hpe hph hd => exact invO_sub hQ h (List.Sublist.refl _) rfl rfl (idpend s)
  case cpUnary f dq s2c' hp hsh hc => exact invO_sub hQ h (List.Sublist.refl _) rfl rfl (idpend s)
  case cStreamRun t rest hl =>
    refine invO_sub hQ h (List.Sublist.refl _) rfl (updC_seqs (trigC_seq _) _) (pend_updC (fun c => ⟨trigC_seq _ c, ?_⟩))
    unfold trigC; split <;> exact id
  case cSweep hsh hcut h1 h2 =>
    refine invO_sub hQ h (List.Sublist.refl _) rfl ?_ ?_
    · show List.map _ (List.map sweepC s.cs) = _
      rw [List.map_map]
      apply List.map_congr_left
      intro c _
      exact (sweepC_fields hf c).1
    · intro c' hc' hp
      obtain ⟨c, _, rfl⟩ := List.mem_map.1 hc'
      rw [(sweepC_fields hf c).2.2.2.1] at hp; cases hp
  case sRecvQ f rest he hl hd =>
    refine invO_sub hQ h ?_ rfl rfl (idpend s)
    have : up s = (s.sDecodeQ ++ [f]) ++ rest := by unfold up; rw [hl]; simp
    rw [this]; exact List.Sublist.refl _
  case spClose q dq c2s' hp =>
    exact invO_sub hQ h (hp.sublist hG) (updS_seqs (by intro t; split <;> rfl) _) rfl (idpend s)
  case spSkip f dq c2s' hp _ => exact invO_sub hQ h (hp.sublist hG) rfl rfl (idpend s)
  case spMsgD q m dq c2s' t hp ht hin hd =>
    exact invO_sub hQ h (hp.sublist hG) (updS_seqs (by intro; rfl) _) rfl (idpend s)
  case spMsgQ q m dq c2s' t hp ht hin hd => exact invO_sub hQ h (hp.sublist hG) rfl rfl (idpend s)
  case spOther q dq c2s' hp => exact invO_sub hQ h (hp.sublist hG) rfl rfl (idpend s)
  case sStreamRun t rest hl =>
    exact invO_sub hQ h (List.Sublist.refl _) (updS_seqs (by intro; rfl) _) rfl (idpend s)
  case sEnd => exact invO_sub hQ h (List.Sublist.refl _) rfl rfl (idpend s)
  case sFinal he hc hd hq =>
    refine invO_sub hQ h (List.Sublist.refl _) ?_ rfl (idpend s)
    show List.map _ (List.map _ s.ss) = _
    rw [List.map_map]
    apply List.map_congr_left
    intro c _
    simp only [Function.comp]
    split <;> rfl
  case sWriteErr q t ht =>
    exact invO_sub hQ h (List.Sublist.refl _) (updS_seqs (by intro; rfl) _) rfl (idpend s)
  case sWriteOk q m t ht _ _ _ =>
    exact invO_sub hQ h (List.Sublist.refl _) (updS_seqs (by intro; rfl) _) rfl (idpend s)
  case sRead q t e' ht hr =>
    exact invO_sub hQ h (List.Sublist.refl _) (updS_seqs (by intro; rfl) _) rfl (idpend s)
  case sExit q t ht =>
    exact invO_sub hQ h (List.Sublist.refl _) (updS_seqs (by intro; rfl) _) rfl (idpend s)
  case cutLink kc ks hc =>
    refine invO_sub hQ h ?_ rfl rfl (idpend s)
    exact List.Sublist.append (List.Sublist.refl _) (List.take_sublist _ _)


/-! ### N: a client stream the server does not know yet -/

/-- nothing for sequence number q is under way except, possibly, its open request -/
def NoTq (dnl upl : List Frame) (tq : List (Nat × Nat)) (q : Nat) : Prop :=
  kindsOf q dnl = [] ∧ (∀ k ∈ kindsOf q upl, k = .open) ∧ tasksOf q tq = []

def InvN (s : State) : Prop :=
  ∀ c ∈ s.cs, c.seq ∉ sseqs s → c.phase = .opening ∧ NoTq (dn s) (up s) s.sStreamQ c.seq

theorem tasksOf_sublist (q : Nat) {a b : List (Nat × Nat)} (h : a.Sublist b) : (tasksOf q a).Sublist (tasksOf q b) := by
  unfold tasksOf; exact List.Sublist.filterMap _ h

theorem NoTq_sub {dnl upl dnl' upl' : List Frame} {tq tq' : List (Nat × Nat)} {q : Nat}
    (h1 : dnl'.Sublist dnl) (h2 : upl'.Sublist upl) (h3 : tq'.Sublist tq) (h : NoTq dnl upl tq q) : NoTq dnl' upl' tq' q := by
  obtain ⟨a, b, c⟩ := h
  refine ⟨?_, ?_, ?_⟩
  · have := kindsOf_sublist q h1
    rw [a] at this
    exact List.eq_nil_of_sublist_nil this
  · intro k hk
    exact b k ((kindsOf_sublist q h2).subset hk)
  · have := tasksOf_sublist q h3
    rw [c] at this
    exact List.eq_nil_of_sublist_nil this

theorem NoTq_push_dn {dnl upl : List Frame} {tq : List (Nat × Nat)} {q : Nat} {fs : List Frame}
    (hfs : ∀ f ∈ fs, f.seq ≠ q) (h : NoTq dnl upl tq q) : NoTq (dnl ++ fs) upl tq q := by
  obtain ⟨a, b, c⟩ := h
  refine ⟨?_, b, c⟩
  rw [kindsOf_append, a, kindsOf_eq_nil.2 hfs]; rfl

theorem NoTq_push_up {dnl upl : List Frame} {tq : List (Nat × Nat)} {q : Nat} {fs : List Frame}
    (hfs : ∀ f ∈ fs, f.seq ≠ q) (h : NoTq dnl upl tq q) : NoTq dnl (upl ++ fs) tq q := by
  obtain ⟨a, b, c⟩ := h
  refine ⟨a, ?_, c⟩
  rw [kindsOf_append, kindsOf_eq_nil.2 hfs, List.append_nil]; exact b

theorem NoTq_no_up {dnl upl : List Frame} {tq : List (Nat × Nat)} {q : Nat} {f : Frame} (h : NoTq dnl upl tq q)
    (hf' : f ∈ upl) (hk : f.kind ≠ .open) : f.seq ≠ q := by
  intro hq
  exact hk (h.2.1 f.kind (mem_kindsOf.2 ⟨f, hf', hq, rfl⟩))

theorem mem_sentS {s : State} {f f' : Frame} (h : f' ∈ sentS s f) : f' = f := by
  unfold sentS at h; split at h
  · cases h
  · simpa using h

theorem invN_init (cfg : Cfg) : InvN (init cfg) := fun _ h => (by cases h)

theorem invN_gen {s s' : State} (h : InvN s)
    (hc : ∀ c' ∈ s'.cs, c'.seq ∉ sseqs s' →
      ∃ c ∈ s.cs, c.seq = c'.seq ∧ c.seq ∉ sseqs s ∧ (c.phase = .opening → c'.phase = .opening))
    (hq : ∀ q ∈ cseqs s, q ∉ sseqs s' → q ∉ sseqs s → NoTq (dn s) (up s) s.sStreamQ q → NoTq (dn s') (up s') s'.sStreamQ q) :
    InvN s' := by
  intro c' hc' hn'
  obtain ⟨c, hcm, hseq, hn, hph⟩ := hc c' hc' hn'
  obtain ⟨h1, h2⟩ := h c hcm hn
  rw [← hseq]
  exact ⟨hph h1, hq c.seq (mem_cseqs hcm) (hseq ▸ hn') hn h2⟩

/-- `hc` of `invN_gen` when the table is updated by a function that keeps the phase -/
theorem invN_hc_updC {s : State} {q : Nat} {g : CStream → CStream} {ss' : List Nat} (hss : ss' = sseqs s)
    (hg : ∀ c, (g c).seq = c.seq ∧ (g c).phase = c.phase) :
    ∀ c' ∈ updC q g s.cs, c'.seq ∉ ss' →
      ∃ c ∈ s.cs, c.seq = c'.seq ∧ c.seq ∉ sseqs s ∧ (c.phase = .opening → c'.phase = .opening) := by
  intro c' hc' hn
  subst hss
  rcases mem_updC hc' with ⟨h1, _⟩ | ⟨c, hc, _, rfl⟩
  · exact ⟨c', h1, rfl, hn, id⟩
  · exact ⟨c, hc, (hg c).1.symm, (hg c).1 ▸ hn, fun hp => (hg c).2.trans hp⟩

theorem invN_hc_id {s : State} {ss' : List Nat} (hss : ∀ q ∈ sseqs s, q ∈ ss') :
    ∀ c' ∈ s.cs, c'.seq ∉ ss' →
      ∃ c ∈ s.cs, c.seq = c'.seq ∧ c.seq ∉ sseqs s ∧ (c.phase = .opening → c'.phase = .opening) :=
  fun c' hc' hn => ⟨c', hc', rfl, fun hh => hn (hss _ hh), id⟩

theorem trigC_phase (v : Nat) (c : CStream) : (trigC v c).phase = c.phase := by
  unfold trigC; split <;> rfl

theorem invN_tr (hf : allFlags = true) {s s' : State} (hG : InvG s) (hL : InvL s) (hQ : InvQ s) (h : InvN s)
    (t : Tr s s') : InvN s' := by
  -- a stream that was returned to the application is known to the server
  have opened_known : ∀ {q c}, getC s q = some c → c.opened = true → q ∈ sseqs s := by
    intro q c hc ho
    apply Classical.byContradiction
    intro hn
    have hcm := (getC_some hc).1
    have hq := (getC_some hc).2
    have := (h c hcm (hq ▸ hn)).1
    exact (hL.c c hcm).1.notOpening ho this
  have sub_refl : ∀ {α : Type} (l : List α), l.Sublist l := fun l => List.Sublist.refl l
  cases t
  case cOpen hsh =>
    intro c' hc' hn'
    rcases List.mem_append.1 hc' with hc' | hc'
    · obtain ⟨h1, h2⟩ := h c' hc' hn'
      refine ⟨h1, ?_⟩
      change NoTq _ (s.sDecodeQ ++ pushC s _) _ _
      rw [up_push]
      refine NoTq_push_up (fun f hf' => ?_) h2
      rw [mem_sentC hf']
      have := hQ.clt _ (mem_cseqs hc')
      show s.nextSeq ≠ c'.seq
      omega
    · simp only [List.mem_singleton] at hc'
      subst hc'
      refine ⟨rfl, ?_, ?_, ?_⟩
      · apply kindsOf_eq_nil.2
        intro f hf'
        have := hQ.fdn f hf'
        show f.seq ≠ s.nextSeq
        omega
      · change ∀ k ∈ kindsOf s.nextSeq (s.sDecodeQ ++ pushC s _), k = .open
        rw [up_push]
        intro k hk
        obtain ⟨f, hf', hq, rfl⟩ := mem_kindsOf.1 hk
        rcases List.mem_append.1 hf' with hm | hm
        · have := hQ.fup f hm
          omega
        · rw [mem_sentC hm]
      · apply tasksOf_eq_nil
        intro t ht
        have := hQ.ts t ht
        show t.1 ≠ s.nextSeq
        omega
  case cWriteErr q c hc ho hcl =>
    exact invN_gen h (invN_hc_updC rfl (by intro c; exact ⟨rfl, rfl⟩)) (fun q _ _ _ hh => hh)
  case cWriteOk q m c hc ho hcl hsh =>
    refine invN_gen h (invN_hc_updC rfl (by intro c; exact ⟨rfl, rfl⟩)) (fun q' _ hn' _ hh => ?_)
    change NoTq _ (s.sDecodeQ ++ pushC s _) _ _
    rw [up_push]
    refine NoTq_push_up (fun f hf' => ?_) hh
    rw [mem_sentC hf']
    intro he
    exact hn' (he ▸ opened_known hc ho)
  case cRead q c e' hc ho hr =>
    exact invN_gen h (invN_hc_updC rfl (by intro c; exact ⟨rfl, rfl⟩)) (fun q _ _ _ hh => hh)
  case cCloseShut q c hc ho hsh =>
    exact invN_gen h (invN_hc_updC rfl (by intro c; exact ⟨rfl, rfl⟩)) (fun q _ _ _ hh => hh)
  case cCloseSend q c hc ho hsh =>
    refine invN_gen h (invN_hc_updC rfl (by intro c; exact ⟨rfl, rfl⟩)) (fun q' _ hn' _ hh => ?_)
    change NoTq _ (s.sDecodeQ ++ pushC s _) _ _
    rw [up_push]
    refine NoTq_push_up (fun f hf' => ?_) hh
    rw [mem_sentC hf']
    intro he
    exact hn' (he ▸ opened_known hc ho)
  case cCall hsh =>
    refine invN_gen h (invN_hc_id (s := s) (fun _ hh => hh)) (fun q' hq' _ _ hh => ?_)
    change NoTq _ (s.sDecodeQ ++ pushC s _) _ _
    rw [up_push]
    refine NoTq_push_up (fun f hf' => ?_) hh
    rw [mem_sentC hf']
    have := hQ.clt _ hq'
    show s.nextSeq ≠ q'
    omega
  case cRecvQ f rest hsh hl hd =>
    refine invN_gen h (invN_hc_id (s := s) (fun _ hh => hh)) (fun q' _ _ _ hh => ?_)
    change NoTq ((s.cDecodeQ ++ [f]) ++ rest) _ _ _
    have : (s.cDecodeQ ++ [f]) ++ rest = dn s := by
      show _ = s.cDecodeQ ++ s.s2c
      rw [hl]; simp
    rw [this]; exact hh
  case cpSkip f dq s2c' hp _ =>
    exact invN_gen h (invN_hc_id (s := s) (fun _ hh => hh)) (fun q' _ _ _ hh => NoTq_sub (hp.sublist hG) (sub_refl _) (sub_refl _) hh)
  case cpCloseDone f dq s2c' c hp hsh hc hpe =>
    exact invN_gen h (invN_hc_updC rfl (by intro c; exact ⟨rfl, rfl⟩))
      (fun q' _ _ _ hh => NoTq_sub (hp.sublist hG) (sub_refl _) (sub_refl _) hh)
  case cpOpened f dq s2c' c hp hsh hc hpe hph =>
    refine invN_gen h ?_ (fun q' _ _ _ hh => NoTq_sub (hp.sublist hG) (sub_refl _) (sub_refl _) hh)
    intro c' hc' hn
    rcases mem_updC hc' with ⟨h1, _⟩ | ⟨c0, hc0, hq0, rfl⟩
    · exact ⟨c', h1, rfl, hn, id⟩
    · exfalso
      have hn0 : c0.seq ∉ sseqs s := hn
      have := (h c0 hc0 hn0).2.1
      rw [kindsOf_eq_nil] at this
      exact this f (hp.mem_dn hG) hq0.symm
  case cpMsgD f dq s2c' c hp hsh hc hpe hph hd =>
    exact invN_gen h (invN_hc_updC rfl (fun c => ⟨trigC_seq _ c, trigC_phase _ c⟩))
      (fun q' _ _ _ hh => NoTq_sub (hp.sublist hG) (sub_refl _) (sub_refl _) hh)
  case cpMsgQ f dq s2c' c hp hsh hc hpe hph hd =>
    exact invN_gen h (invN_hc_id (s := s) (fun _ hh => hh)) (fun q' _ _ _ hh => NoTq_sub (hp.sublist hG) (sub_refl _) (sub_refl _) hh)
  case cpUnary f dq s2c' hp hsh hc =>
    exact invN_gen h (invN_hc_id (s := s) (fun _ hh => hh)) (fun q' _ _ _ hh => NoTq_sub (hp.sublist hG) (sub_refl _) (sub_refl _) hh)
  case cStreamRun t rest hl =>
    exact invN_gen h (invN_hc_updC rfl (fun c => ⟨trigC_seq _ c, trigC_phase _ c⟩)) (fun q _ _ _ hh => hh)
  case cSweep hsh hcut h1 h2 =>
    refine invN_gen h ?_ (fun q _ _ _ hh => hh)
    intro c' hc' hn
    obtain ⟨c, hc, rfl⟩ := List.mem_map.1 hc'
    obtain ⟨f1, f2, -⟩ := sweepC_fields hf c
    exact ⟨c, hc, f1.symm, f1 ▸ hn, fun hp => f2.trans hp⟩
  case sRecvQ f rest he hl hd =>
    refine invN_gen h (invN_hc_id (s := s) (fun _ hh => hh)) (fun q' _ _ _ hh => ?_)
    change NoTq _ ((s.sDecodeQ ++ [f]) ++ rest) _ _
    have : (s.sDecodeQ ++ [f]) ++ rest = up s := by
      show _ = s.sDecodeQ ++ s.c2s
      rw [hl]; simp
    rw [this]; exact hh
  case spOpen q dq c2s' hp hn =>
    have hss : ∀ x, x ∈ List.map (·.seq) (s.ss ++ [{ seq := q, acked := true, started := true }]) ↔ x ∈ sseqs s ∨ x = q := by
      intro x
      rw [List.map_append]; simp
    refine invN_gen h (invN_hc_id (s := s) (fun x hx => (hss x).2 (Or.inl hx))) (fun q' _ hn' _ hh => ?_)
    have hne : q' ≠ q := fun he => hn' ((hss q').2 (Or.inr he))
    have h1 := NoTq_sub (sub_refl (dn s)) (hp.sublist hG) (sub_refl _) hh
    change NoTq (s.cDecodeQ ++ pushS s _) _ _ _
    rw [dn_push]
    refine NoTq_push_dn (fun f hf' => ?_) h1
    rw [mem_sentS hf']; exact fun he => hne he.symm
  case spClose q dq c2s' hp =>
    refine invN_gen h (invN_hc_id (s := s) (fun x hx => ?_)) (fun q' _ _ _ hh => ?_)
    · show x ∈ List.map _ (updS _ _ s.ss)
      rw [updS_seqs (by intro t; split <;> rfl)]; exact hx
    · have hne : q ≠ q' := NoTq_no_up hh (hp.mem_up hG) (fun hk => (by cases hk))
      have h1 := NoTq_sub (sub_refl (dn s)) (hp.sublist hG) (sub_refl _) hh
      change NoTq (s.cDecodeQ ++ pushS s _) _ _ _
      rw [dn_push]
      refine NoTq_push_dn (fun f hf' => ?_) h1
      rw [mem_sentS hf']; exact hne
  case spSkip f dq c2s' hp _ =>
    exact invN_gen h (invN_hc_id (s := s) (fun _ hh => hh)) (fun q' _ _ _ hh => NoTq_sub (sub_refl _) (hp.sublist hG) (sub_refl _) hh)
  case spMsgD q m dq c2s' t hp ht hin hd =>
    refine invN_gen h (invN_hc_id (s := s) (fun x hx => ?_)) (fun q' _ _ _ hh => NoTq_sub (sub_refl _) (hp.sublist hG) (sub_refl _) hh)
    show x ∈ List.map _ (updS _ _ s.ss)
    rw [updS_seqs (by intro t; rfl)]; exact hx
  case spMsgQ q m dq c2s' t hp ht hin hd =>
    refine invN_gen h (invN_hc_id (s := s) (fun _ hh => hh)) (fun q' _ hn' _ hh => ?_)
    obtain ⟨a, b, c⟩ := NoTq_sub (sub_refl (dn s)) (hp.sublist hG) (sub_refl _) hh
    refine ⟨a, b, ?_⟩
    have hne : q ≠ q' := fun he => hn' (he ▸ (getS_some ht).2 ▸ mem_sseqs (getS_some ht).1)
    show tasksOf q' (s.sStreamQ ++ [(q, m)]) = []
    rw [tasksOf_snoc_ne _ hne]; exact c
  case spOther q dq c2s' hp =>
    refine invN_gen h (invN_hc_id (s := s) (fun _ hh => hh)) (fun q' _ _ _ hh => ?_)
    have hne : q ≠ q' := NoTq_no_up hh (hp.mem_up hG) (fun hk => (by cases hk))
    have h1 := NoTq_sub (sub_refl (dn s)) (hp.sublist hG) (sub_refl _) hh
    change NoTq (s.cDecodeQ ++ pushS s _) _ _ _
    rw [dn_push]
    refine NoTq_push_dn (fun f hf' => ?_) h1
    rw [mem_sentS hf']; exact hne
  case sStreamRun t rest hl =>
    refine invN_gen h (invN_hc_id (s := s) (fun x hx => ?_)) (fun q' _ _ _ hh => ?_)
    · show x ∈ List.map _ (updS _ _ s.ss)
      rw [updS_seqs (by intro t; rfl)]; exact hx
    · refine NoTq_sub (sub_refl _) (sub_refl _) ?_ hh
      rw [hl]; exact List.sublist_cons_self _ _
  case sEnd => exact invN_gen h (invN_hc_id (s := s) (fun _ hh => hh)) (fun q _ _ _ hh => hh)
  case sFinal he hc hd hq =>
    refine invN_gen h (invN_hc_id (s := s) (fun x hx => ?_)) (fun q _ _ _ hh => hh)
    show x ∈ List.map _ (List.map _ s.ss)
    rw [List.map_map]
    have : (List.map ((fun (x : SStream) => x.seq) ∘ fun t => if t.inTable = true then { t with e := t.e.stop } else t) s.ss) =
        List.map (·.seq) s.ss := by
      apply List.map_congr_left
      intro c _
      simp only [Function.comp]
      split <;> rfl
    rw [this]; exact hx
  case sWriteErr q t ht =>
    refine invN_gen h (invN_hc_id (s := s) (fun x hx => ?_)) (fun q _ _ _ hh => hh)
    show x ∈ List.map _ (updS _ _ s.ss)
    rw [updS_seqs (by intro t; rfl)]; exact hx
  case sWriteOk q m t ht _ _ _ =>
    refine invN_gen h (invN_hc_id (s := s) (fun x hx => ?_)) (fun q' _ _ hn hh => ?_)
    · show x ∈ List.map _ (updS _ _ s.ss)
      rw [updS_seqs (by intro t; rfl)]; exact hx
    · have hne : q ≠ q' := fun he => hn (he ▸ (getS_some ht).2 ▸ mem_sseqs (getS_some ht).1)
      change NoTq (s.cDecodeQ ++ pushS s _) _ _ _
      rw [dn_push]
      refine NoTq_push_dn (fun f hf' => ?_) hh
      rw [mem_sentS hf']; exact hne
  case sRead q t e' ht hr =>
    refine invN_gen h (invN_hc_id (s := s) (fun x hx => ?_)) (fun q _ _ _ hh => hh)
    show x ∈ List.map _ (updS _ _ s.ss)
    rw [updS_seqs (by intro t; rfl)]; exact hx
  case sExit q t ht =>
    refine invN_gen h (invN_hc_id (s := s) (fun x hx => ?_)) (fun q _ _ _ hh => hh)
    show x ∈ List.map _ (updS _ _ s.ss)
    rw [updS_seqs (by intro t; rfl)]; exact hx
  case cutLink kc ks hc =>
    refine invN_gen h (invN_hc_id (s := s) (fun _ hh => hh)) (fun q' _ _ _ hh => ?_)
    exact NoTq_sub (List.Sublist.append (sub_refl _) (List.take_sublist _ _))
      (List.Sublist.append (sub_refl _) (List.take_sublist _ _)) (sub_refl _) hh

end RpcVerif.T
