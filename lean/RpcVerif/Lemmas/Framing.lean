import RpcVerif.Model.Framing
import RpcVerif.Lemmas.Varint
/-
  The framing layer: the messages read do not depend on how the transport fragments the
  byte stream (C01).
-/
namespace RpcVerif.Framing
open RpcVerif

/-! ### 1. the length prefix -/

/-- `parseLenAux` reads back the canonical spelling, whatever follows it. -/
theorem parseLenAux_put (n : Nat) : ∀ (fuel shift acc : Nat) (rest : Bytes),
    n < 2 ^ (7 * (fuel + 1)) →
    parseLenAux (fuel + 1) shift acc (putVarint n ++ rest)
      = some (acc + n * 2 ^ shift, (putVarint n).length) := by
  induction n using Nat.strongRecOn with
  | _ n ih =>
    intro fuel shift acc rest hf
    unfold putVarint
    by_cases hn : n < 128
    · have hb : (UInt8.ofNat n).toNat = n := toNat_ofNat_lt n (by omega)
      simp [hn, parseLenAux, hb]
    · have hb : (UInt8.ofNat (n % 128 + 128)).toNat = n % 128 + 128 :=
        toNat_ofNat_lt _ (by omega)
      have hf0 : fuel ≠ 0 := by
        intro h; subst h; simp at hf; omega
      obtain ⟨fuel, rfl⟩ := Nat.exists_eq_succ_of_ne_zero hf0
      have hdiv : n / 128 < n := by omega
      have hf' : n / 128 < 2 ^ (7 * (fuel + 1)) := by
        have : 2 ^ (7 * (fuel + 1 + 1)) = 2 ^ (7 * (fuel + 1)) * 128 := by
          rw [show 7 * (fuel + 1 + 1) = 7 * (fuel + 1) + 7 by omega, Nat.pow_add]
        rw [this] at hf
        exact Nat.div_lt_of_lt_mul (by rw [Nat.mul_comm]; exact hf)
      have hge : ¬ (n % 128 + 128 < 128) := by omega
      have hmod : (n % 128 + 128) % 128 = n % 128 := by omega
      simp only [Nat.succ_eq_add_one] at *
      simp only [hn, if_false, List.cons_append, parseLenAux, hb, hge, hmod]
      rw [ih (n / 128) hdiv fuel (shift + 7) _ rest hf']
      simp only [List.length_cons, Option.some.injEq, Prod.mk.injEq, and_true]
      have hpow : 2 ^ (shift + 7) = 2 ^ shift * 128 := by rw [Nat.pow_add]
      rw [hpow, Nat.add_assoc]
      congr 1
      have := Nat.div_add_mod n 128
      calc n % 128 * 2 ^ shift + n / 128 * (2 ^ shift * 128)
          = (n % 128 + 128 * (n / 128)) * 2 ^ shift := by
            rw [Nat.add_mul, Nat.mul_comm (2 ^ shift) 128, ← Nat.mul_assoc,
              Nat.mul_comm (n / 128) 128]
        _ = n * 2 ^ shift := by rw [Nat.add_comm, this]

theorem parseLen_put (n : Nat) (h : n < 2 ^ 63) (rest : Bytes) :
    parseLen (putVarint n ++ rest) = some (n, (putVarint n).length) := by
  have := parseLenAux_put n 9 0 0 rest (by
    have : (2 : Nat) ^ 63 ≤ 2 ^ (7 * (9 + 1)) := Nat.pow_le_pow_right (by omega) (by omega)
    omega)
  simpa [parseLen] using this

theorem parseLen_frame (m rest : Bytes) (h : m.length < 2 ^ 63) :
    parseLen (frame m ++ rest) = some (m.length, (putVarint m.length).length) := by
  unfold frame
  rw [List.append_assoc]
  exact parseLen_put m.length h (m ++ rest)

/-- A truncated canonical spelling always asks for more bytes. -/
theorem parseLenAux_incomplete (n : Nat) : ∀ (fuel shift acc k : Nat),
    k < (putVarint n).length →
    parseLenAux fuel shift acc ((putVarint n).take k) = none := by
  induction n using Nat.strongRecOn with
  | _ n ih =>
    intro fuel shift acc k hk
    cases fuel with
    | zero => simp [parseLenAux]
    | succ fuel =>
      cases k with
      | zero => simp [parseLenAux]
      | succ k =>
        unfold putVarint at hk ⊢
        by_cases hn : n < 128
        · simp [hn] at hk
        · have hb : (UInt8.ofNat (n % 128 + 128)).toNat = n % 128 + 128 :=
            toNat_ofNat_lt _ (by omega)
          have hge : ¬ (n % 128 + 128 < 128) := by omega
          simp only [hn, if_false, List.length_cons] at hk
          simp only [hn, if_false, List.take_succ_cons, parseLenAux, hb, hge]
          rw [ih (n / 128) (by omega) fuel _ _ k (by omega)]

theorem parseLen_incomplete (n : Nat) (_h : n < 2 ^ 63) (k : Nat)
    (hk : k < (putVarint n).length) : parseLen ((putVarint n).take k) = none :=
  parseLenAux_incomplete n 10 0 0 k hk

/-! ### 2. one extraction -/

theorem frame_length (m : Bytes) : (frame m).length = (putVarint m.length).length + m.length := by
  simp [frame]

theorem frame_length_pos (m : Bytes) : 0 < (frame m).length := by
  have := putVarint_length_pos m.length
  rw [frame_length]; omega

theorem take1_frame (m rest : Bytes) (h : m.length < 2 ^ 63) :
    take1 (frame m ++ rest) = some (m, rest) := by
  unfold take1
  rw [parseLen_frame m rest h]
  simp only [frame, List.append_assoc, List.length_append]
  rw [if_pos (by omega)]
  simp

theorem take1_partial (m : Bytes) (h : m.length < 2 ^ 63) (k : Nat)
    (hk : k < (frame m).length) : take1 ((frame m).take k) = none := by
  unfold take1
  by_cases hL : k < (putVarint m.length).length
  · have : (frame m).take k = (putVarint m.length).take k := by
      unfold frame
      rw [List.take_append_of_le_length (by omega)]
    rw [this, parseLen_incomplete _ h k hL]
  · have : (frame m).take k
        = putVarint m.length ++ m.take (k - (putVarint m.length).length) := by
      unfold frame
      rw [List.take_append]
      rw [List.take_of_length_le (by omega)]
    rw [this, parseLen_put _ h]
    rw [frame_length] at hk
    simp only [List.length_append, List.length_take]
    rw [if_neg (by omega)]

/-! ### 3. reassembly does not depend on fragmentation -/

/-- the wire image of a list of messages -/
def frames (fs : List Bytes) : Bytes := (fs.map frame).flatten

@[simp] theorem frames_nil : frames [] = [] := rfl
@[simp] theorem frames_cons (m : Bytes) (fs : List Bytes) :
    frames (m :: fs) = frame m ++ frames fs := rfl

theorem frames_length_ge (fs : List Bytes) : fs.length ≤ (frames fs).length := by
  induction fs with
  | nil => simp
  | cons m fs ih =>
    have := frame_length_pos m
    simp only [frames_cons, List.length_cons, List.length_append]
    omega

theorem frames_append (as bs : List Bytes) : frames (as ++ bs) = frames as ++ frames bs := by
  simp [frames]

theorem take1_nil : take1 [] = none := by
  simp [take1, parseLen, parseLenAux]

/-- with enough fuel, `drain` extracts exactly the complete frames at the front -/
theorem drain_frames (fs : List Bytes) (hm : ∀ m ∈ fs, m.length < 2 ^ 63) :
    ∀ (fuel : Nat) (tail : Bytes), fs.length < fuel → take1 tail = none →
    drain fuel (frames fs ++ tail) = (fs, tail) := by
  induction fs with
  | nil =>
    intro fuel tail hf ht
    cases fuel with
    | zero => omega
    | succ fuel => simp [drain, ht]
  | cons m fs ih =>
    intro fuel tail hf ht
    cases fuel with
    | zero => omega
    | succ fuel =>
      have hm' : ∀ x ∈ fs, x.length < 2 ^ 63 := fun x hx => hm x (List.mem_cons_of_mem _ hx)
      simp only [frames_cons, List.append_assoc, drain]
      rw [take1_frame m _ (hm m List.mem_cons_self)]
      simp only
      rw [ih hm' fuel tail (by simpa using hf) ht]

/-- any cut of the wire image falls after some whole frames and inside (or just before) the
    next one -/
theorem split_frames (fs : List Bytes) (hm : ∀ m ∈ fs, m.length < 2 ^ 63) :
    ∀ (X Y : Bytes), X ++ Y = frames fs →
    ∃ (i : Nat) (B : Bytes), X = frames (fs.take i) ++ B ∧ take1 B = none ∧
      B ++ Y = frames (fs.drop i) := by
  induction fs with
  | nil =>
    intro X Y h
    simp at h
    refine ⟨0, [], ?_, take1_nil, ?_⟩ <;> simp [h.1, h.2]
  | cons m fs ih =>
    intro X Y h
    have hm' : ∀ x ∈ fs, x.length < 2 ^ 63 := fun x hx => hm x (List.mem_cons_of_mem _ hx)
    rw [frames_cons] at h
    by_cases hlen : (frame m).length ≤ X.length
    · -- the cut is at or after the end of the first frame
      obtain ⟨X', hX, hY⟩ : ∃ X', X = frame m ++ X' ∧ X' ++ Y = frames fs := by
        rcases List.append_eq_append_iff.mp h with ⟨a, ha, hb⟩ | ⟨c, ha, hb⟩
        · have hl := congrArg List.length ha
          simp only [List.length_append] at hl
          have : a = [] := List.eq_nil_of_length_eq_zero (by omega)
          subst this
          exact ⟨[], by simpa using ha.symm, by simpa using hb⟩
        · exact ⟨c, ha, hb.symm⟩
      obtain ⟨i, B, h1, h2, h3⟩ := ih hm' X' Y hY
      refine ⟨i + 1, B, ?_, h2, ?_⟩
      · simp [hX, h1]
      · simpa using h3
    · -- the cut is inside the first frame
      have hX : X = (frame m).take X.length := by
        have := congrArg (List.take X.length) h
        rw [List.take_left, List.take_append_of_le_length (by omega)] at this
        exact this
      refine ⟨0, X, by simp, ?_, by simpa using h⟩
      rw [hX]
      exact take1_partial m (hm m List.mem_cons_self) X.length (by omega)

/-- one `feed`: the chunk completes some further frames, which are exactly what is extracted -/
theorem feed_frames (fs : List Bytes) (hm : ∀ m ∈ fs, m.length < 2 ^ 63)
    (acc : List Bytes) (B chunk Y : Bytes) (h : B ++ chunk ++ Y = frames fs) :
    ∃ (i : Nat) (B' : Bytes), feed (acc, B) chunk = (acc ++ fs.take i, B') ∧ take1 B' = none ∧
      B' ++ Y = frames (fs.drop i) := by
  obtain ⟨i, B', h1, h2, h3⟩ := split_frames fs hm (B ++ chunk) Y h
  refine ⟨i, B', ?_, h2, h3⟩
  have hfuel : (fs.take i).length < (B ++ chunk).length + 1 := by
    have := frames_length_ge (fs.take i)
    rw [h1, List.length_append]
    omega
  have hd := drain_frames (fs.take i) (fun m hx => hm m (List.mem_of_mem_take hx))
    ((B ++ chunk).length + 1) B' hfuel h2
  rw [← h1] at hd
  simp only [feed, hd]

/-- the fold invariant -/
theorem foldl_feed_frames : ∀ (chunks : List Bytes) (fs : List Bytes),
    (∀ m ∈ fs, m.length < 2 ^ 63) → ∀ (acc : List Bytes) (B Y : Bytes),
    B ++ chunks.flatten ++ Y = frames fs → take1 B = none →
    ∃ (i : Nat) (B' : Bytes), chunks.foldl feed (acc, B) = (acc ++ fs.take i, B') ∧
      take1 B' = none ∧ B' ++ Y = frames (fs.drop i) := by
  intro chunks
  induction chunks with
  | nil =>
    intro fs _ acc B Y h hB
    exact ⟨0, B, by simp, hB, by simpa using h⟩
  | cons c cs ih =>
    intro fs hm acc B Y h hB
    have h' : B ++ c ++ (cs.flatten ++ Y) = frames fs := by
      simpa [List.append_assoc] using h
    obtain ⟨i, B1, e1, t1, r1⟩ := feed_frames fs hm acc B c (cs.flatten ++ Y) h'
    have hm' : ∀ m ∈ fs.drop i, m.length < 2 ^ 63 :=
      fun m hx => hm m (List.mem_of_mem_drop hx)
    obtain ⟨j, B2, e2, t2, r2⟩ := ih (fs.drop i) hm' (acc ++ fs.take i) B1 Y
      (by simpa [List.append_assoc] using r1) t1
    refine ⟨i + j, B2, ?_, t2, ?_⟩
    · rw [List.foldl_cons, e1, e2, List.append_assoc, List.take_add]
    · rw [r2, List.drop_drop]

/-- C01: the messages read do not depend on how the stream is cut into chunks. -/
theorem readAll_chunks (ms : List Bytes) (hm : ∀ m ∈ ms, m.length < 2 ^ 63)
    (chunks : List Bytes) (hc : chunks.flatten = (ms.map frame).flatten) :
    readAll chunks = (ms, []) := by
  obtain ⟨i, B, e, t, r⟩ := foldl_feed_frames chunks ms hm [] [] []
    (by simpa [frames] using hc) take1_nil
  unfold readAll
  rw [e]
  have hdrop : ms.drop i = [] := by
    cases hd : ms.drop i with
    | nil => rfl
    | cons m rest =>
      exfalso
      rw [hd, frames_cons, List.append_nil] at r
      have hmem : m ∈ ms := List.mem_of_mem_drop (by rw [hd]; exact List.mem_cons_self)
      rw [r, take1_frame m _ (hm m hmem)] at t
      cases t
  rw [hdrop] at r
  have hB : B = [] := by simpa using r
  have hi : ms.length ≤ i := by simpa using hdrop
  simp [hB, List.take_of_length_le hi]

/-! ### 4. a truncated stream -/

/-- Cutting the stream at any byte offset delivers a prefix of the messages. -/
theorem readAll_truncated (ms : List Bytes) (hm : ∀ m ∈ ms, m.length < 2 ^ 63)
    (chunks : List Bytes) (hc : chunks.flatten <+: (ms.map frame).flatten) :
    ∃ j, (readAll chunks).1 = ms.take j := by
  obtain ⟨Y, hY⟩ := hc
  obtain ⟨i, B, e, _, _⟩ := foldl_feed_frames chunks ms hm [] [] Y
    (by simpa [frames] using hY) take1_nil
  exact ⟨i, by simp [readAll, e]⟩

end RpcVerif.Framing
