"""Per-property configuration of bin/check: which harness components run, which model-driver
streams are compared, and the text that goes into the evidence file."""

TB_COMMON = [
    "Lean 4.33.0 kernel; axioms propext, Classical.choice, Quot.sound only (audited with #print axioms on every run)",
    "Lean compiler/runtime for the rpcmodel driver (the executable model used in the correspondence is compiled code)",
    "harness/cmd/extract (go/ast facts + go2lean for whitelisted integer fragments): that the emitted Lean means what the Go fragment means",
    "harness/cmd/corr: generators, in-process calls into the real code, monitors, canonicalisation",
    "Go runtime and standard library; hslam/{code,buffer,scheduler,socket,funcs,netpoll} as used",
]

CONN_RULE = ("scripted scenarios against the real *rpc.Conn over a gated fake socket.Messages (corpus of adversarial orders + PRNG scripts of 8-160 actions: "
             "calls of all five forms, write verdicts, responses/duplicates/unknown-seq/undecodable frames, EOF, read error, Close, cancellation, held body decodes), "
             "in the four modes direct-IO x pipelining and four header encoders; after every action the quiescent state of the implementation is compared with the Lean automaton's; "
             "distinct = (header, mode, sequence of action kinds); every scenario is non-trivial (>= 4 actions, at least one call)")
CONN_MODELLED = ("conn.go send/recv/read/finishCall/complete/closeQueue/Close and the five call forms are modelled as the automaton K (Model/ConnSM.lean) at the granularity of "
                 "conn.mutex critical sections and gate crossings; the lock-free code between two gates is assumed to behave as the model's step says (sampled by the state correspondence, not proved); "
                 "streams are not part of K; hslam/scheduler is modelled as a FIFO single worker (closeQueue drains it in order)")

SRV_RULE = ("scripted scenarios against the real Server.ServeCodec over a fake socket.Messages with gated handlers of four shapes: requests (known/unknown method, decodable or not), pings, "
            "every kind of upgrade byte, junk frames, handler results (ok, error text, unencodable reply), EOF/read error with handlers running, bursts of up to 64 requests followed at once by EOF; "
            "four modes direct-IO x pipelining, four header encoders; state compared with the Lean server automaton after every action")
SRV_MODELLED = ("server.go ServeCodec/ServeRequest/handleRequest/readRequestBody/callService/sendResponse and codec_server.go WriteResponse are modelled as the automaton S (Model/ServerSM.lean); "
                "crash sites (nil Func, zero reflect.Value, WaitGroup reuse) are values of the model guarded by facts read from the source (Generated/ServerFacts.lean); streams and poll mode are not part of S")

E2E_RULE = ("end-to-end scenarios: the real client stack (Conn, or Transport, or Client) against the real server stack over chunking in-memory links, inproc, tcp, unix, http (TLS on some), "
            "x header encoder {default,pb,code,json} x body codec {json,bytes,code,pb,msgp} x server modes (poll, pipelining, direct I/O, context buffer, NoCopy) x client modes x buffer sizes {512,64K,1M} "
            "x options by name or by constructor; PRNG workload of 6..200 operations from 1..6 goroutines (all call forms, failing handlers, unknown methods, pings, streams incl. server-first pushes and streams left open), "
            "payloads 16 B..300 KB; the transcript is compared with the abstract spec computed by the Lean driver; distinct = configuration line")
E2E_MODELLED = ("the composition is not modelled as a product automaton: the end-to-end statement is derived from K's provenance theorem, S's own-reply construction, the wire round-trip and the framing theorem under the linking hypothesis stated in Props/C01; "
                "real networks, TLS, netpoll and the OS are outside every model")

POLL_RULE = ("poll mode: the real Server.ListenWithOptions over a fake socket.Socket whose listener plays netpoll - scripted connections, 1..4 workers calling the serve callback concurrently for one connection, "
             "a header encoder that delays the decoding of chosen requests (widening the window between reading and dispatching a frame), bursts, stream opens, EOF; monitors: executed once, answered once, "
             "pipelining order and seriality per connection, stream handlers released at EOF; direct I/O x pipelining; monitors only (no model stream)")

POOL_RULE = ("scripted scenarios against the real *rpc.Transport whose Dial returns real Conns over an in-memory scripted server: sequential and held (long-running) calls of four forms to three addresses, "
             "server kill/revive, idle phases (short / medium: KeepAlive passes / long: IdleConnTimeout passes), CloseIdleConnections, Close, limits in {-1,0,1,2,3}x{-1,0,1,2,5}; "
             "after every action the pool snapshot (verif accessor), open sockets, dial count and call outcomes are compared with the Lean pool automaton; distinct = (limits, action sequence)")
POOL_MODELLED = ("transport.go getConn/newPersistConn/run/CloseIdleConnections/Close/checkPersistConnErr and conns/connQueue are modelled as the automaton P (Model/Pool.lean), one event per connsMu critical section; "
                 "limit normalisation and Cursor() are translated from the source on every run (Generated/PoolFacts.lean); the Conn inside a pooled connection is abstracted to (dead, outstanding calls)")
TB_POOL = TB_COMMON + ["the verif-tagged accessors in /repo/verif_hooks.go (housekeeping period, pool snapshot)", "real timers and sleeps in the correspondence phases"]

ROUTE_RULE = ("scripted scenarios against the real *rpc.Client with an instrumented RoundTripper (records the address of every call, scripted per-address health and latency) and a fixed detection period: "
              "Update sequences (duplicates, empty strings, removals while calls run), target up/down histories, Director results, 1..8 concurrent parked callers, Close and Fallback at scripted points, "
              "all three policies, Alpha/Tick settings; the routing snapshot (verif accessor: list, heap, last, cursor, waiters, alive, latency) after every action is compared with the Lean automaton R "
              "on detector-independent scenarios, and monitors check every recorded call against the target list in force; EWMA arithmetic cases against exact rationals; distinct = (policy, action sequence)")
ROUTE_MODELLED = ("client.go Update/director/wait/schedule/detect/check/checkPending/Close/Fallback/target.Update/Alive/minHeap/heapDown are modelled as the automaton R (Model/Router.lean), one event per Client.lock critical section; "
                  "cursor and heap index arithmetic and the per-form report facts are translated from the source on every run (Generated/RouteFacts.lean); the order in which concurrent check goroutines take the lock (hence the order of the live list) is an input of the model taken from the observation; "
                  "the detector's timer, DialTimeout timers and float64 EWMA arithmetic are the runtime's: measured, not modelled")
TB_ROUTE = TB_COMMON + ["the verif-tagged accessors in /repo/verif_hooks.go (routing snapshot, latency override, detector period constant)", "real timers in the scenarios that wait for the detector (monitor-only)"]

STREAM_RULE = ("scripted scenarios against a real *rpc.Conn and a real Server.ServeCodec joined by a scripted link (every frame either side writes is queued and delivered to the other reader only when the script says so; "
               "bursts; a cut keeps a prefix of what is in flight; each reader is told about the end separately): 1..4 streams per connection, handlers that push 1..3 messages the moment they start (under a slow acknowledgement), "
               "writes and reads on both sides incl. parked readers, client Close with messages in flight, unary calls interleaved; client direct I/O x server direct I/O x pipelining flags x four header encoders; "
               "after every action the observable state of both ends (what each application read, errors, parked readers, Close returned, frames in flight) is compared with the Lean automaton T; distinct = (configuration, sequence of action kinds)")
STREAM_MODELLED = ("stream.go, conn.go (NewStream, closeStream, stream branches of send/read, recv teardown), server.go (stream branches of ServeRequest/callService, ServeCodec teardown) are modelled as the automaton T (Model/Stream.lean): both ends and the two FIFO wires; "
                   "eight facts about ordering and teardown are read from the source on every run (Generated/StreamFacts.lean); the hand-over from trigger to a parked reader is one step in T (a Close racing it is kept out of bursts); poll mode shares ServeRequest and its EOF teardown is a fact read from listen(); "
                   "Server.Close in poll mode with the connection open is outside T (known finding D17)")

PROPS = {
    "C07": {
        "components": [{"name": "wire", "driver": "wire", "streams": ["c07"]}],
        "rule": "structure-aware header values (seq at every 7-bit boundary and 2^63/2^64-1; field lengths around 0,1,127/128,16383/16384,65535/65536,2097151/2097152; "
                "scratch buffers of capacity 0,1,size-1,size,size+1,64K with dirty contents) through the real encoders/decoders and the Lean model; "
                "distinct = (op, header, kind, varint-size of seq, length buckets, scratch-capacity class); all are non-trivial (each runs encoder, decoder and three monitors)",
        "trusted_base": TB_COMMON + ["encoding/json for the json header (not modelled; monitored only)"],
        "modelled": "codec.pb.go, codec.code.go (Size/Marshal/MarshalTo/Unmarshal), upgrade.go, checkBuffer are modelled (Model/Wire.lean) at the granularity of contiguous chunk writes "
                    "and tied by regenerated constants + byte-exact differential; the json header is not modelled in Lean (round-trip, keys and UTF-8 handling are monitored on the implementation only)",
        "assumptions": ["sequence numbers < 2^64, field lengths < 2^63 (Go types)", "json header: method/error are valid UTF-8 (as the property states)"],
    },
    "C02": {
        "components": [{"name": "conn", "driver": "conn", "streams": ["k"]}],
        "rule": CONN_RULE, "trusted_base": TB_COMMON, "modelled": CONN_MODELLED,
        "assumptions": ["Done channels have room for the calls they carry", "fewer than 2^64 calls per connection"],
    },
    "C03": {"components": [{"name": "conn", "driver": "conn", "streams": ["k"]}, {"name": "stream", "driver": "stream", "streams": ["t"]}], "rule": CONN_RULE + " | " + STREAM_RULE, "trusted_base": TB_COMMON, "modelled": CONN_MODELLED,
            "assumptions": ["'within bounded time' is a quiescence theorem plus a 3 s deadline on every blocking call in the correspondence runs", "closing a real socket unblocks a blocked Read/Write (OS)"]},
    "C05": {"components": [{"name": "conn", "driver": "conn", "streams": ["k"]}, {"name": "server", "driver": "server", "streams": ["s"]}, {"name": "poll", "driver": "", "streams": []}],
            "rule": CONN_RULE + " | " + SRV_RULE + " | " + POLL_RULE, "trusted_base": TB_COMMON, "modelled": CONN_MODELLED + " | " + SRV_MODELLED,
            "assumptions": ["client order is over completions determined by the connection (responses processed in arrival order, failures, refusals, sweep in sequence order); it equals issue order when the server answers in request order", "poll mode: S is the same automaton by a fact read from listen() (receive lock held from ReadMessage to dispatch); exercised by the poll component with concurrent workers and by the end-to-end runs"]},
    "C06": {"components": [{"name": "conn", "driver": "conn", "streams": ["k"]}, {"name": "server", "driver": "server", "streams": ["s"]}, {"name": "stream", "driver": "stream", "streams": ["t"]}],
            "rule": CONN_RULE + " | " + SRV_RULE, "trusted_base": TB_COMMON, "modelled": CONN_MODELLED + " | " + SRV_MODELLED, "assumptions": ["error texts are non-empty"]},
    "C19": {"components": [{"name": "conn", "driver": "conn", "streams": ["k"]}], "rule": CONN_RULE, "trusted_base": TB_COMMON, "modelled": CONN_MODELLED,
            "assumptions": ["'as soon as' = cancellation is an always-enabled single step; a caller blocked inside a write (no pipelining) sees the cancellation when the write returns", "the late response of an abandoned call is still decoded into that call's own reply/buffer (observed, allowed by the property)"]},
    "C13": {"components": [{"name": "pool", "driver": "pool", "streams": ["p"]}], "rule": POOL_RULE, "trusted_base": TB_POOL, "modelled": POOL_MODELLED, "assumptions": ["logical clock; real timers only in the correspondence, with margins of >= 20 housekeeping periods around every threshold"]},
    "C14": {"components": [{"name": "pool", "driver": "pool", "streams": ["p"]}], "rule": POOL_RULE, "trusted_base": TB_POOL, "modelled": POOL_MODELLED, "assumptions": ["'promptly' (ErrDial without delay) is measured by the harness deadline, not proved"]},
    "C15": {"components": [{"name": "pool", "driver": "pool", "streams": ["p"]}], "rule": POOL_RULE, "trusted_base": TB_POOL, "modelled": POOL_MODELLED, "assumptions": ["reclamation after KeepAlive/IdleConnTimeout is observed in the correspondence phases (idle medium / idle long), not proved as a liveness theorem",
        "the window between getConn returning a connection and the call registering on it is not gate-bounded (DESIGN.md D12): the spares-busy theorem is about connections in active lists"]},
    "C01": {"components": [{"name": "conn", "driver": "conn", "streams": ["k"]}, {"name": "server", "driver": "server", "streams": ["s"]},
                           {"name": "framing", "driver": "frame", "streams": ["f"]}, {"name": "e2e", "driver": "e2e", "streams": ["e"]}],
            "rule": CONN_RULE + " | " + SRV_RULE + " | framing: message lists (lengths around 0,1,127/128,16383/16384, 64K, buffer size) written through the real socket.Messages writer and read back through the real reader over a link that fragments, batches and truncates at PRNG-chosen points, compared byte for byte with Model/Framing.lean | " + E2E_RULE,
            "trusted_base": TB_COMMON, "modelled": CONN_MODELLED + " | " + SRV_MODELLED + " | " + E2E_MODELLED,
            "assumptions": ["linking hypothesis PeerAnswersOwn (Props/C01): the peer answers a sequence number with the reply of the request written under it - proved of S for the library's own server, assumed of the composition", "body codecs (json, bytes, code, pb, msgp, gencode) are outside the model: end-to-end payload self-description checks them"]},
    "C20": {"components": [{"name": "conn", "driver": "conn", "streams": ["k"]}, {"name": "pool", "driver": "pool", "streams": ["p"]}, {"name": "e2e", "driver": "e2e", "streams": ["e"]}],
            "rule": CONN_RULE + " | " + POOL_RULE + " | " + E2E_RULE + "; after teardown in either order: goroutine profile back to baseline, counting sockets all closed, Listen returned, second Close without panic",
            "trusted_base": TB_POOL, "modelled": CONN_MODELLED + " | " + POOL_MODELLED + " | goroutine exit, socket closure and Listen's return are runtime facts measured by the harness (goroutine profile, counting sockets), not modelled",
            "assumptions": ["'terminate' is a quiescence theorem (no model thread has work left) plus measured goroutine baselines with a 3 s deadline", "poll-mode Server.Close with an open connection: see known finding D17 (C10)"]},
    "C16": {"components": [{"name": "router", "driver": "router", "streams": ["r"]}], "rule": ROUTE_RULE, "trusted_base": TB_ROUTE, "modelled": ROUTE_MODELLED,
            "assumptions": ["'at the time of routing' = the Client.lock critical section in which director()/schedule() runs; a call routed before Update returns may still be in flight to a removed target afterwards (the property allows it)"]},
    "C17": {"components": [{"name": "router", "driver": "router", "streams": ["r"]}], "rule": ROUTE_RULE, "trusted_base": TB_ROUTE, "modelled": ROUTE_MODELLED,
            "assumptions": ["'stable set of live targets' = the live list does not change between the n picks", "the EWMA value is float64 arithmetic: compared with the documented formula to within 1 ns by the harness, not proved"]},
    "C18": {"components": [{"name": "router", "driver": "router", "streams": ["r"]}], "rule": ROUTE_RULE, "trusted_base": TB_ROUTE, "modelled": ROUTE_MODELLED,
            "assumptions": ["bounded detection time, 'as soon as' and 'at once' are measured against the detection period / deadlines by the harness, not proved", "caller ids (Client.seq) are distinct"]},
    "C12": {"components": [{"name": "server", "driver": "server", "streams": ["s"]}, {"name": "framing", "driver": "frame", "streams": ["f"]}, {"name": "e2e", "driver": "e2e", "streams": ["e"]}],
            "rule": E2E_RULE + " | " + SRV_RULE + " | framing differential over buffer sizes and fragmentations",
            "trusted_base": TB_COMMON + ["real sockets, TLS, netpoll, the OS in the end-to-end runs"], "modelled": SRV_MODELLED + " | " + E2E_MODELLED + " | Options resolution chains are read from dialer.go/server.go on every run (Generated/OptFacts.lean); the registries themselves, TLS and the socket packages are not modelled",
            "assumptions": ["the cross product of networks x codecs x modes x buffer sizes is sampled end to end (PRNG over the matrix), not enumerated; the theorems cover server modes, header encoders, buffer sizes and fragmentation for all inputs", "ws is exercised one call at a time only (as the property states)", "NoCopy only with handlers and codecs that do not keep or alias argument bytes"]},
    "C09": {"components": [{"name": "stream", "driver": "stream", "streams": ["t"]}, {"name": "e2e", "driver": "e2e", "streams": ["e"]}],
            "rule": STREAM_RULE + " | " + E2E_RULE, "trusted_base": TB_COMMON, "modelled": STREAM_MODELLED,
            "assumptions": ["messages in flight when the client closes the stream or the connection is cut may be dropped (the property speaks of an open stream)", "one reader at a time per stream end in the scripted scenarios", "corruption of payload bytes is covered by the wire and framing theorems (C07, C01) and by end-to-end payload checks, not by T (payloads are abstract values)"]},
    "C10": {"components": [{"name": "stream", "driver": "stream", "streams": ["t"]}, {"name": "poll", "driver": "", "streams": []}, {"name": "e2e", "driver": "e2e", "streams": ["e"]}],
            "rule": STREAM_RULE + " | " + E2E_RULE + "; after teardown in either order: handler exit log, goroutine profile", "trusted_base": TB_COMMON, "modelled": STREAM_MODELLED,
            "assumptions": ["'promptly' is a quiescence statement (no reader parked on a stopped stream in any reachable state) plus 2-3 s deadlines in the harness", "poll mode: per-connection teardown is the same code path by a fact read from listen(); Server.Close in poll mode with the connection still open never reaches it (known finding D17)"]},
    "C11": {"components": [{"name": "conn", "driver": "conn", "streams": ["k"]}, {"name": "e2e", "driver": "e2e", "streams": ["e"]}],
            "rule": E2E_RULE + "; handlers keep the argument bytes they were given, callers keep replies (incl. replies placed in a caller-supplied context buffer) and every stream message read with no buffer, all are re-hashed after the rest of the workload, with body codecs whose decoded values alias their input (bytes, code, pb) | " + CONN_RULE + " (context buffers of capacity len-1 / len / len+1 pre-filled with a pattern: bytes beyond the reported length untouched)",
            "trusted_base": TB_COMMON, "modelled": "the memory discipline of readRequestBody / finishCall / read / callService / stream.ReadMessage is modelled as the automaton M (Model/Prov.lean): pooled read buffers, hand-over paths, release and reuse; whether each path copies before it hands over and before it releases is a fact read from the source on every run (Generated/ProvFacts.lean: nine facts and the translated context-buffer condition); sync.Pool, the buffer package and the body codecs are not modelled",
            "assumptions": ["NoCopy (server) and NoCopy streams alias the read buffer by contract: excluded, as the property says", "the facts are syntactic (a copy statement precedes the decode and the release; no assignment makes call.Value point into the read buffer): a copy that is present but wrong in length would be caught by the end-to-end re-hash only"]},
    "C04": {"components": [{"name": "server", "driver": "server", "streams": ["s"]}, {"name": "stream", "driver": "stream", "streams": ["t"]}, {"name": "pool", "driver": "pool", "streams": ["p"]}, {"name": "poll", "driver": "", "streams": []}, {"name": "e2e", "driver": "e2e", "streams": ["e"]}],
            "rule": SRV_RULE + " | " + POLL_RULE + " | " + STREAM_RULE + " | " + POOL_RULE + " (the scripted server counts how often the request of each call reaches it, incl. connections dropped under a call while the server stays reachable) | " + E2E_RULE,
            "trusted_base": TB_POOL, "modelled": SRV_MODELLED + " | " + E2E_MODELLED,
            "assumptions": ["the peer uses each sequence number once per connection (guaranteed by the client half: K's pending-table invariant)", "Transport/Client never retry: in the pool automaton P a call is carried by exactly one connection (model structure) and the scripted server counts arrivals per call; end-to-end execution counts; not a separate theorem"]},
    "C08": {
        "components": [{"name": "wire", "driver": "wire", "streams": ["c08"]}, {"name": "server", "driver": "server", "streams": ["s"]}, {"name": "conn", "driver": "conn", "streams": ["k"]}],
        "rule": "malformed stream: every truncation (≤48 cut points per frame) and single-byte substitutions {00,01,08,7f,80,ff,random} in the first 12 and 4 random positions of valid frames, "
                "hand-written adversarial frames (10-byte varints, over-long length fields), random bytes; each decoded twice with different stale bytes behind the frame; "
                "distinct = (derivation, header, kind, length bucket, outcome)",
        "trusted_base": TB_COMMON,
        "modelled": "header decoders modelled with Go's slice semantics (index vs len, re-slice vs cap) incl. panics as values (Model/Wire.lean)",
        "assumptions": ["read buffers shorter than 2^63 bytes"],
    },
}


NOT_APPLICABLE = {}

KERNEL_NOTE = "Trusted: Lean kernel (propext, Classical.choice, Quot.sound only), the extractor, the harness (gates, quiescence detection, monitors). "

MANIFEST_TEXT = {
    "C03": {
        "text": "Lean 4 theorems over K: after the reader's final sweep nothing is registered; a call started after the end is refused with ErrShutdown without touching the wire; the sweep is enabled only after every received frame was processed (a response received before the cut completes its call); in every quiescent state with no gate held every call is completed or waiting on a live connection and every signalled blocking caller has returned. State correspondence with the real Conn for EOF/read error/Close at every point of scripted conversations.",
        "note": KERNEL_NOTE + "Elapsed time is measured (3 s deadline per blocking call), not proved; OS behaviour of closed sockets is trusted; server-side cut positions by byte offset are covered by the end-to-end runs only.",
        "technique": "Lean 4 proof (invariants + quiescence theorem) + state correspondence under scripted cuts + monitors"},
    "C05": {
        "text": "Lean 4 theorems: with client pipelining the shared Done channel receives asynchronous calls in exactly the order their completion was determined (FIFO refinement: determined = arrived ++ queued), success or failure alike; server automaton S executes jobs of a pipelining connection in dispatch order, one at a time. Both automata are compared state-by-state with the real Conn / ServeCodec; monitors check handler overlap, entry order, response order and Done-channel order.",
        "note": KERNEL_NOTE + "Server-side theorems are attached as they are proved (see evidence for the list of obligations discharged on this run); poll mode only end to end.",
        "technique": "Lean 4 proof (FIFO invariants) + state correspondence (client and server) + order monitors"},
    "C06": {
        "text": "Lean 4 theorems over K: a server error text in Call.Error comes from a received error response carrying the call's own sequence number; a failed call's reply is never written; processing a response touches only the call registered under its sequence number; a request that cannot be encoded leaves pending table and wire log unchanged. Correspondence with real Conn and ServeCodec; monitors check error texts verbatim (up to 5000 bytes, multi-byte UTF-8), stability of the text under later traffic, untouched replies.",
        "note": KERNEL_NOTE + "Text stability (no aliasing of the read buffer) is observed by the monitor, not proved.",
        "technique": "Lean 4 proof (provenance + frame properties) + state correspondence + text monitors"},
    "C19": {
        "text": "Lean 4 theorems over K: cancelling an un-returned context call is an always-enabled step that returns the context's error, keeps the call registered and changes no other call; a late response changes only the call registered under its sequence number; a signalled call is never touched again; the reply goes into the caller's buffer iff its capacity suffices. Correspondence under scripted orders of cancel vs response, buffers of capacity len-1/len/len+1.",
        "note": KERNEL_NOTE + "'As soon as' is a one-step enabledness lemma plus measured deadlines.",
        "technique": "Lean 4 proof (step/frame lemmas) + state correspondence + buffer-bounds monitor"},
    "C01": {
        "text": "Lean 4 theorems: (K) over the client automaton, for every interleaving and every frame sequence, what is decoded into a call's Reply is the body of a received frame bearing that call's own sequence number, sequence numbers are never shared, and hence under a peer that answers each number with its own request's reply every completed call holds its own reply; (S) the server answers only sequence numbers it read and with the reply computed for that request; (W) sequence number and payload survive every header encoder; (F) for every fragmentation, batching or truncation of the byte stream the messages read are (a prefix of) the messages written. Correspondence: K, S and the framing model against the real code; end-to-end runs with self-describing payloads across all configurations.",
        "note": KERNEL_NOTE + "The product K x F x S is not built: the halves are linked by the explicit hypothesis PeerAnswersOwn. Body codecs are exercised end to end only.",
        "technique": "Lean 4 proof (provenance invariant, framing theorem, wire round-trip) + state/byte correspondence + end-to-end self-describing payloads"},
    "C20": {
        "text": "Lean 4 theorems: after Conn.Close, in every quiescent state of K with no gate held, the reader has run its teardown, every queue and registry is empty and every call is completed; a second Close reports ErrShutdown and changes nothing; Transport.Close closes every pooled connection, empties the pool, stops housekeeping and is idempotent (over every event sequence of P); a server connection whose teardown is over has nothing left to dispatch and no handler running. The harness measures what the runtime owns: goroutine profile back to baseline, counting sockets closed, Listen returned, in both teardown orders.",
        "note": KERNEL_NOTE + "Goroutine exit and socket closure are measured, not proved. Poll-mode Server.Close with an open connection is known finding D17 (listed under C10).",
        "technique": "Lean 4 proof (quiescence + release theorems over K, P, S) + state correspondence + goroutine/socket baselines end to end"},
    "C16": {
        "text": "Lean 4 theorems over the routing automaton R (one event per Client.lock critical section; every history of Update, probes in any order, health reports, latencies, Director results, parked and concurrent callers, every policy): each routing decision hands the call to an address of the target map in force in that critical section or to the Director's address; Update installs exactly the distinct non-empty addresses given and clears list, heap and remembered set; live list and heap only ever hold current targets. R is compared with the real Client's routing snapshot after every action of scripted scenarios and every recorded call is checked against the list in force.",
        "note": KERNEL_NOTE + "The order in which concurrent check goroutines take the lock is taken from the observation. Calls routed before Update returns may still be in flight (allowed by the property).",
        "technique": "Lean 4 proof (routing invariant by induction over all event sequences) + translated cursor/heap arithmetic + state correspondence + per-call address monitor"},
    "C17": {
        "text": "Lean 4 theorems over R: with n >= 2 live targets the next n round-robin picks are pairwise distinct and cover the live list (from every reachable cursor position); Random picks a live target for every value of the random source; a non-probe LeastTime pick is the heap root after heapify and its estimate is minimal among all live targets (sift-down correctness over the translated index arithmetic); probes are rotation picks taken only when due and clear the due flag, so at most one per Tick; a dial failure resets the estimate to the maximum. EWMA values are compared with the documented formula over exact rationals on 4000 cases per run.",
        "note": KERNEL_NOTE + "float64 EWMA arithmetic is measured, not proved; 'stable set' = the live list does not change between the picks.",
        "technique": "Lean 4 proof (rotation, heap minimality, probe discipline) + state correspondence + EWMA differential + per-call address monitors with scripted latencies"},
    "C18": {
        "text": "Lean 4 theorems over R: parked callers and released callers are disjoint and nobody is parked after Close (invariant over every event sequence); the detector's release empties the waiter table in one critical section as soon as a target is live and no Fallback is in force; Close releases every waiter, afterwards routing answers ErrShutdown without waiting, a late parker is released at once and a second Close is a no-op; a parked caller's timeout step is always enabled; a dial failure marks the target dead and every call form reports (facts read from client.go). The harness measures detection time, wake-up latency, DialTimeout and the error values of all five call forms under scripted up/down histories.",
        "note": KERNEL_NOTE + "Timers are the runtime's: bounded detection time and 'at once' are measured against deadlines.",
        "technique": "Lean 4 proof (waiter invariant, release/close step theorems) + state correspondence + timed monitors for failover, wake-up, timeout and close"},
    "C12": {
        "text": "Lean 4 theorems: over the server-connection automaton S every response written is the answer prescribed by a configuration-free function of the request and its handler's verdict, two runs in different modes (direct I/O x pipelining) and schedules write the same response for the same request, and at the end of a connection the responses are exactly the prescribed answers; client and server resolve socket, body codec and header encoder from Options by the same chain (read from dialer.go/server.go on every run) in which a registered name wins over a constructor; header encoders emit the same bytes whatever the size or contents of the reused buffer; framing delivers the same messages for every fragmentation. End-to-end runs draw configurations from the full matrix (network incl. TLS, header encoder, body codec, server and client modes, buffer sizes 512..1M, options by name or constructor) and compare every transcript with the abstract spec computed by the Lean driver.",
        "note": KERNEL_NOTE + "The matrix is sampled, not enumerated; real networks, TLS and body codecs are outside the model; poll mode is exercised end to end and by the poll component only.",
        "technique": "Lean 4 proof (mode-independent answers, option-resolution equality, buffer/fragmentation independence) + translated option chains + state correspondence + end-to-end matrix against the Lean spec"},
    "C09": {
        "text": "Lean 4 theorems over the stream automaton T (both ends of one connection and the two FIFO wires; every interleaving of application threads, readers, decode and stream workers, handlers; any number of streams; unary traffic on the same wires; any cut that keeps a prefix of what is in flight): what an application has read or has queued on a stream is a prefix of what the other side wrote on that same stream (no duplication, reordering, foreign message or cross-delivery), and while the receiving end is open and the connection up everything written is read, queued or in flight in order (no loss) - including messages the handler pushes before the client has seen the open acknowledgement. The ordering facts the proof needs (acknowledgement written before the handler starts; the reader switches the call to the streaming phase) are read from server.go/conn.go on every run. T is compared state-by-state with a real Conn and a real ServeCodec joined by a scripted link after every action; end-to-end runs check stream transcripts incl. server-first pushes in every configuration.",
        "note": KERNEL_NOTE + "Payloads are abstract values in T (byte-level integrity is C07/C01 and the end-to-end payload checks). Messages in flight at Close/cut may be dropped.",
        "technique": "Lean 4 proof (path invariant over both ends and the wires, by induction over all traces) + source-derived ordering facts + state correspondence over a scripted link + end-to-end stream transcripts"},
    "C10": {
        "text": "Lean 4 theorems over T: in every reachable state nobody is parked on a stopped stream; once the client reader has torn down every stream handed to the application is stopped, and once the server connection has torn down every stream of it is stopped; stopping wakes the parked reader with ErrStreamShutdown; a later read or write on a stopped stream fails at once and sends nothing; closing one stream changes no other stream, no unary call and nothing already on its way. The teardown facts (client recv, ServeCodec, the poll-mode EOF branch, Close stops before the handshake, stop sets the flag and broadcasts) are read from the source on every run. Correspondence over the scripted link with parked readers on both sides, Close with messages in flight, cuts at every point; end-to-end: handler exit log and goroutine baselines in poll and non-poll mode.",
        "note": KERNEL_NOTE + "'Promptly' is measured (2-3 s deadlines). Known finding D17: in poll mode Server.Close with a connection still open never runs the per-connection teardown, so its stream handlers stay blocked until the peer closes.",
        "technique": "Lean 4 proof (no-stranded-reader invariant, teardown theorems, frame lemmas) + source-derived teardown facts + state correspondence over a scripted link + end-to-end handler-exit monitors"},
    "C11": {
        "text": "Lean 4 theorem over the memory automaton M (read buffers taken from and returned to pools, values handed to user code on the library's paths, reuse of released buffers by later frames): for every history, whatever user code holds after a hand-over on a copying path still reads exactly as at hand-over; every default path (handler arguments, replies incl. caller-supplied buffers, stream messages on both sides, error texts) copies - nine facts read from server.go/conn.go/stream.go on every run; the caller's context buffer is used exactly when the translated source condition holds and nothing is written beyond the reply's length. End-to-end runs re-hash retained arguments, replies and stream messages after further traffic with aliasing codecs; the conn harness checks context-buffer bounds with capacities around the reply length.",
        "note": KERNEL_NOTE + "The facts are syntactic patterns (copy before decode and before release; no aliasing assignment); sync.Pool and the codecs are outside the model. NoCopy modes are excluded by the property itself.",
        "technique": "Lean 4 proof (ownership invariant over all histories of M) + source-derived copy facts + translated buffer condition + end-to-end re-hash of retained data + context-buffer bounds monitor"},
    "C04": {
        "text": "Lean 4 theorems over the server-connection automaton S (every interleaving of reader, decode worker, execution workers, handlers, teardown; every request mix incl. all 256 upgrade bytes and junk; every disconnect point): no request is executed or answered twice, no handler or response is phantom, and at the end of the connection every request read was executed exactly once if it had to be and answered exactly once. S is compared state-by-state with the real ServeCodec under scripted schedules; end-to-end runs count executions per call across all configurations and through Transport and Client.",
        "note": KERNEL_NOTE + "Unique sequence numbers per connection are assumed of the peer (the client half proves it of the library's own client). 'Never retries' for Transport/Client is measured end to end.",
        "technique": "Lean 4 proof (counting invariants over all traces) + state correspondence + end-to-end execution counts"},
    "C13": {
        "text": "Lean 4 theorems over the pool automaton P for every sequence of pool events (any callers, addresses, ticks at any clock values, failures, CloseIdleConnections, Close): open sockets per address never exceed MaxConnsPerHost, idle queues never exceed MaxIdleConnsPerHost, limits are normalised as documented. Normalisation and cursor arithmetic are translated from transport.go on every run; P is compared with the real Transport (pool snapshot, open sockets, dials, outcomes) after every action of scripted scenarios, and a counting socket wrapper checks the bound at every dial.",
        "note": KERNEL_NOTE + "Also trusted: the verif-tagged accessors and real timers in the correspondence phases (margins >= 20 ticks).",
        "technique": "Lean 4 proof (pool invariant by induction over all event sequences) + translated limit/cursor arithmetic + state correspondence + counting monitor"},
    "C14": {
        "text": "Lean 4 theorems over P: on every reachable pool state getConn hands out only a connection dialed to and filed under the requested address that is not known dead (all three paths); a connection marked dead stays dead; while the server is down nothing is dialed and an empty pool yields ErrDial. Correspondence and monitors (server identity echoed in replies, failures after a restart bounded by the pooled connections) on the real Transport.",
        "note": KERNEL_NOTE + "'Promptly' is a harness deadline. Recovery bound is a corollary argued from the two theorems plus the monitor, not a separate theorem.",
        "technique": "Lean 4 proof + state correspondence + restart/identity monitors"},
    "C15": {
        "text": "Lean 4 theorems over P, for every reachable pool state: a housekeeping pass and CloseIdleConnections neither close nor retire a connection of an active list with an outstanding call (guards read from the source); a connection that getConn has just handed out is stamped on every path, so a pass that falls between getConn and the registration of the call, within KeepAlive, leaves it untouched; a connection that is not stale is left exactly as it is; an unused connection older than KeepAlive leaves the active list at the next pass and goes to the idle queue or is closed; an idle queue whose connections are all older than IdleConnTimeout is closed entirely; Close closes every pooled connection, empties the pool, stops housekeeping and is idempotent. Timed correspondence phases incl. a caller held inside the hand-out window by a build-tagged hook point.",
        "note": KERNEL_NOTE + "D12 (a pass inside the getConn-to-register window) was reproduced with a build-tagged hook point and repaired (46ebda4); the window theorem covers passes within KeepAlive of the hand-out. Reclamation is proved per pass; that passes happen is the runtime's ticker.",
        "technique": "Lean 4 proof (safety part) + state correspondence over timed phases + busy-connection monitor"},
    "C07": {
        "text": "Lean 4 theorems over the wire model: for every header value, scratch buffer and read-buffer tail the pb/default and code encoders emit exactly the documented bytes and the decoders return the original fields; upgrade flags round-trip and are injective. The model's constants are regenerated from /repo on every run and the model is compared byte-for-byte with the real encoders/decoders on generated values.",
        "note": KERNEL_NOTE + "The json header is not modelled: its round-trip, keys and UTF-8 handling are monitored on the implementation only. Sequence numbers < 2^64, lengths < 2^63.",
        "technique": "Lean 4 proof (round-trip, format, scratch-independence) + regenerated constants + byte-exact differential correspondence"},
    "C08": {
        "text": "Lean 4 theorems: the four header decoders never panic and never read past the frame, for every byte string and every content of the read buffer behind it; every upgrade byte decodes to in-range flags. Go slice semantics (index vs len, re-slice vs cap) and panics are values of the model; model and real decoders are compared on a malformed-frame stream.",
        "note": KERNEL_NOTE + "Plus: over the server automaton S no sequence of frames, handler results and disconnect points crashes the connection (crash sites guarded by five facts read from server.go), teardown never dispatches after wg.Wait. Client-side Conn.read robustness is exercised by the conn harness with junk/unknown/duplicate frames. 'Other connections still served' is exercised end to end, not proved.",
        "technique": "Lean 4 proof (totality, non-interference of stale buffer bytes) + differential correspondence on malformed frames"},
    "C02": {
        "text": "Lean 4 theorems over the client-connection automaton K (every interleaving of sender, reader, decode and completion threads; any write verdicts, frames, EOF, errors, Close): a call is owned by exactly one path at any time, is signalled at most once and its outcome is written at most once. K is compared state-by-state with the real Conn under scripted schedules (gated fake transport) after every action, in all four I/O modes.",
        "note": KERNEL_NOTE + "Code between two gates is assumed to behave as one model step (sampled, not proved). Liveness half ('at least once') is a quiescence theorem + measured deadlines.",
        "technique": "Lean 4 proof (ownership invariant by induction over all traces) + state correspondence under scripted schedules + monitors"},
}
