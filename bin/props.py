"""Per-property configuration of bin/check: which harness components run, which model-driver
streams are compared, and the text that goes into the evidence file."""

TB_COMMON = [
    "Lean 4.33.0 kernel; axioms propext, Classical.choice, Quot.sound only (audited with #print axioms on every run)",
    "Lean compiler/runtime for the rpcmodel driver (the executable model used in the correspondence is compiled code)",
    "harness/cmd/extract (go/ast facts + go2lean for whitelisted integer fragments): that the emitted Lean means what the Go fragment means",
    "harness/cmd/corr: generators, in-process calls into the real code, monitors, canonicalisation",
    "Go runtime and standard library; hslam/{code,buffer,scheduler,socket,funcs,netpoll} as used",
]

PROPS = {
    "C07": {
        "components": [{"name": "wire", "driver": "wire", "streams": ["c07"]}],
        "rule": "structure-aware header values (seq at every 7-bit boundary and 2^63/2^64-1; field lengths around 0,1,127/128,16383/16384,65535/65536,2097151/2097152; "
                "scratch buffers of capacity 0,1,size-1,size,size+1,64K with dirty contents) through the real encoders/decoders and the Lean model; "
                "distinct = (op, header, kind, varint-size of seq, length buckets, scratch-capacity class); all are non-trivial (each runs encoder, decoder and three monitors)",
        "trusted_base": TB_COMMON + ["encoding/json for the json header (not modelled; monitored only)"],
        "modelled": "codec.pb.go, codec.code.go (Size/Marshal/MarshalTo/Unmarshal), upgrade.go, checkBuffer are modelled (Model/Wire.lean) at the granularity of contiguous chunk writes "
                    "and tied by regenerated constants + byte-exact differential; the json header is not modelled in Lean (round-trip, keys and UTF-8 handling are monitored on the implementation only)",
        "assumptions": ["sequence numbers < 2^64, field lengths < 2^63 (Go types)", "json header: method/error are valid UTF-8 (as the property states)"],
    },
    "C08": {
        "components": [{"name": "wire", "driver": "wire", "streams": ["c08"]}],
        "rule": "malformed stream: every truncation (≤48 cut points per frame) and single-byte substitutions {00,01,08,7f,80,ff,random} in the first 12 and 4 random positions of valid frames, "
                "hand-written adversarial frames (10-byte varints, over-long length fields), random bytes; each decoded twice with different stale bytes behind the frame; "
                "distinct = (derivation, header, kind, length bucket, outcome)",
        "trusted_base": TB_COMMON,
        "modelled": "header decoders modelled with Go's slice semantics (index vs len, re-slice vs cap) incl. panics as values (Model/Wire.lean)",
        "assumptions": ["read buffers shorter than 2^63 bytes"],
    },
}
